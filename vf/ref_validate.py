# -*- coding: utf-8 -*-
"""
Reference (oracle) implementation of GraphQL document validation.

Written from the text of the GraphQL specification, June 2018 edition,
section 5 "Validation" (5.1 Documents ... 5.8 Variables), and section 3 for
the literal input coercion rules.

Design: every rule is a pure function ``rule(schema, document) -> [Violation]``
computed with comprehensions over small *pure* enumeration helpers on the
plain AST (no visitor, no type stack, no shared mutable state).  The only
things imported from py_gql are data types: AST node classes and schema type
classes.  Nothing from py_gql.validation / utilities / execution is used.

All rules are total: they accept arbitrary syntactically valid documents and,
when the information a rule needs is missing because some *other* rule is
already violated (unknown parent type, unknown fragment, unknown directive,
...), the rule reports nothing for that node.

Interpretation switches (see the report / comments at each use):

    SUBSCRIPTION_COLLECT_HONOURS_SKIP_INCLUDE  (default False)
    NESTED_LIST_ITEM_COERCION                  (default True)
"""

import json
import sys
from itertools import combinations

from py_gql.lang import ast as A
from py_gql.schema import (
    EnumType,
    InputObjectType,
    InterfaceType,
    ListType,
    NonNullType,
    ObjectType,
    ScalarType,
    UnionType,
)

# --------------------------------------------------------------------------
# Interpretation switches
# --------------------------------------------------------------------------

#: 5.2.3.1 says "CollectFields(subscriptionType, selectionSet, variableValues)"
#: with an *empty* variableValues.  Read literally, CollectFields also
#: evaluates @skip / @include, so ``a @skip(if: true)`` would not count and
#: ``a @include(if: $v)`` would *never* count (the variable is not in the
#: empty map).  The second consequence is plainly unintended, so by default
#: directives are ignored when counting subscription root fields.  Set to
#: True for the strictly literal reading.
SUBSCRIPTION_COLLECT_HONOURS_SKIP_INCLUDE = False

#: 3.11 (List, input coercion): the prose says single-value-to-list coercion
#: "may apply recursively for nested lists", which makes ``[1, 2]`` acceptable
#: for ``[[Int]]`` (each item 1 coerces to [1]).  The (non normative) example
#: table of the same section lists ``[[Int]]  [1, 2, 3]`` as an error.
#: True follows the prose, False follows the table.
NESTED_LIST_ITEM_COERCION = True


# --------------------------------------------------------------------------
# Result type
# --------------------------------------------------------------------------


class Violation:
    __slots__ = ("rule", "message", "nodes")

    def __init__(self, rule, message, nodes=None):
        self.rule = rule
        self.message = message
        self.nodes = list(nodes or [])

    def __repr__(self):
        return "Violation(%s: %s)" % (self.rule, self.message)

    def __eq__(self, other):
        return (
            isinstance(other, Violation)
            and self.rule == other.rule
            and self.message == other.message
            and [id(n) for n in self.nodes] == [id(n) for n in other.nodes]
        )

    def __hash__(self):
        return hash((self.rule, self.message))


# --------------------------------------------------------------------------
# Types.
#
# Internally a type reference is a nested tuple
#     ("named", <schema named type object>) | ("list", T) | ("nonnull", T)
# so that type references coming from the schema and from the document
# (variable definitions) are compared uniformly and structurally.
# --------------------------------------------------------------------------


def tref_of_schema_type(t):
    if isinstance(t, NonNullType):
        inner = tref_of_schema_type(t.type)
        return None if inner is None else ("nonnull", inner)
    if isinstance(t, ListType):
        inner = tref_of_schema_type(t.type)
        return None if inner is None else ("list", inner)
    if t is None:
        return None
    return ("named", t)


def tref_of_ast_type(schema, node):
    """Type reference for a type written in the document, None if it names a
    type that does not exist in the schema."""
    if isinstance(node, A.NonNullType):
        inner = tref_of_ast_type(schema, node.type)
        return None if inner is None else ("nonnull", inner)
    if isinstance(node, A.ListType):
        inner = tref_of_ast_type(schema, node.type)
        return None if inner is None else ("list", inner)
    if isinstance(node, A.NamedType):
        t = schema.types.get(node.name.value)
        return None if t is None else ("named", t)
    return None


def ast_named_type_name(node):
    while isinstance(node, (A.NonNullType, A.ListType)):
        node = node.type
    return node.name.value if isinstance(node, A.NamedType) else None


def is_nonnull(tref):
    return tref is not None and tref[0] == "nonnull"


def is_list(tref):
    return tref is not None and tref[0] == "list"


def nullable(tref):
    return tref[1] if is_nonnull(tref) else tref


def named_of(tref):
    """The innermost named schema type of a type reference (or None)."""
    while tref is not None and tref[0] != "named":
        tref = tref[1]
    return None if tref is None else tref[1]


def tref_str(tref):
    if tref is None:
        return "<unknown>"
    if tref[0] == "nonnull":
        return tref_str(tref[1]) + "!"
    if tref[0] == "list":
        return "[" + tref_str(tref[1]) + "]"
    return str(getattr(tref[1], "name", tref[1]))


def ast_type_str(node):
    if isinstance(node, A.NonNullType):
        return ast_type_str(node.type) + "!"
    if isinstance(node, A.ListType):
        return "[" + ast_type_str(node.type) + "]"
    if isinstance(node, A.NamedType):
        return node.name.value
    return "?"


def is_composite_type(t):
    return isinstance(t, (ObjectType, InterfaceType, UnionType))


def is_leaf_type(t):
    return isinstance(t, (ScalarType, EnumType))


def is_input_named_type(t):
    return isinstance(t, (ScalarType, EnumType, InputObjectType))


# --------------------------------------------------------------------------
# Scopes.
#
# The "scope" of a selection set is the type its fields are selected on
# (spec: "the scoped type of the selection set", "parent type").  It is a
# purely lexical property.  It is either a composite schema type, or - when it
# cannot be determined - an *unknown scope token* ("?", path) where path is a
# string such as "type:Nope" (type condition on a type that does not exist or
# is not composite), "Dog.nope.a" (result of the undefined field a of the
# result of the undefined field nope of Dog) or "root:mutation" (schema
# without mutation type).  Tokens compare by value so that "the same unknown
# thing" equals itself (two fields under the same unknown parent do have
# equal parent types, whatever that type is).
# --------------------------------------------------------------------------


def scope_known(scope):
    return not isinstance(scope, tuple)


def scope_of_type_name(schema, name):
    t = schema.types.get(name)
    return t if is_composite_type(t) else ("?", "type:%s" % name)


def scope_of_type_condition(schema, type_condition):
    return scope_of_type_name(schema, ast_named_type_name(type_condition))


def root_operation_type(schema, operation):
    return {
        "query": schema.query_type,
        "mutation": schema.mutation_type,
        "subscription": schema.subscription_type,
    }.get(operation.operation)


def scope_of_definition(schema, definition):
    if isinstance(definition, A.OperationDefinition):
        t = root_operation_type(schema, definition)
        return t if is_composite_type(t) else ("?", "root:%s" % definition.operation)
    return scope_of_type_condition(schema, definition.type_condition)


class _Meta:
    """Definition of a meta field / meta field argument (4.1, 4.2)."""

    def __init__(self, name, tref, arguments=()):
        self.name = name
        self.tref = tref
        self.arguments = list(arguments)
        self.has_default_value = False


def _meta_field(schema, scope, name):
    string = schema.types.get("String")
    if name == "__typename" and string is not None:
        return _Meta(name, ("nonnull", ("named", string)))
    if scope is schema.query_type and scope is not None:
        if name == "__schema" and "__Schema" in schema.types:
            return _Meta(name, ("nonnull", ("named", schema.types["__Schema"])))
        if (
            name == "__type"
            and "__Type" in schema.types
            and string is not None
        ):
            arg = _Meta("name", ("nonnull", ("named", string)))
            return _Meta(name, ("named", schema.types["__Type"]), [arg])
    return None


def field_definition(schema, scope, name):
    """Field definition named ``name`` on ``scope`` (None if undeterminable
    or not defined)."""
    if not scope_known(scope):
        return None
    meta = _meta_field(schema, scope, name)
    if meta is not None:
        return meta
    if isinstance(scope, (ObjectType, InterfaceType)):
        return scope.field_map.get(name)
    return None  # unions only have __typename


def def_tref(definition):
    """Type reference of a field / argument / input field definition."""
    if definition is None:
        return None
    if isinstance(definition, _Meta):
        return definition.tref
    return tref_of_schema_type(definition.type)


def scope_of_field_result(schema, scope, field):
    fdef = field_definition(schema, scope, field.name.value)
    t = named_of(def_tref(fdef))
    if t is None:
        base = scope.name if scope_known(scope) else scope[1]
        return ("?", "%s.%s" % (base, field.name.value))
    return t if is_composite_type(t) else ("?", "type:%s" % t.name)


# --------------------------------------------------------------------------
# Pure enumeration helpers over the AST
# --------------------------------------------------------------------------


def operations(document):
    return [d for d in document.definitions if isinstance(d, A.OperationDefinition)]


def fragment_definitions(document):
    return [d for d in document.definitions if isinstance(d, A.FragmentDefinition)]


def executable_definitions(document):
    return [
        d
        for d in document.definitions
        if isinstance(d, (A.OperationDefinition, A.FragmentDefinition))
    ]


def fragment_map(document):
    """name -> FragmentDefinition (the first one when names are duplicated)."""
    res = {}
    for f in fragment_definitions(document):
        res.setdefault(f.name.value, f)
    return res


def scoped_selections(schema, selection_set, scope):
    """[(selection, scope)] for every selection lexically contained in
    ``selection_set`` (fragment spreads are listed, not followed).

    (The recursive helpers return lists rather than being generators on
    purpose: plain Python recursion is only bounded by the recursion limit,
    which validate() raises, whereas nested generators also consume C stack.)
    """
    res = []
    for sel in selection_set.selections if selection_set is not None else ():
        res.append((sel, scope))
        if isinstance(sel, A.Field):
            if sel.selection_set is not None:
                res += scoped_selections(
                    schema,
                    sel.selection_set,
                    scope_of_field_result(schema, scope, sel),
                )
        elif isinstance(sel, A.InlineFragment):
            inner = (
                scope
                if sel.type_condition is None
                else scope_of_type_condition(schema, sel.type_condition)
            )
            res += scoped_selections(schema, sel.selection_set, inner)
    return res


def definition_selections(schema, definition):
    return scoped_selections(
        schema, definition.selection_set, scope_of_definition(schema, definition)
    )


def document_selections(schema, document):
    """[(selection, scope)] for every selection of every executable definition."""
    return [
        pair
        for d in executable_definitions(document)
        for pair in definition_selections(schema, d)
    ]


def document_fields(schema, document):
    """[(field node, scope, field definition or None)]"""
    return [
        (sel, scope, field_definition(schema, scope, sel.name.value))
        for sel, scope in document_selections(schema, document)
        if isinstance(sel, A.Field)
    ]


def descendant_selections(selection_set):
    """Every selection lexically contained in ``selection_set`` (purely
    syntactic; fragment spreads are listed, not followed)."""
    res = []
    for sel in selection_set.selections if selection_set is not None else ():
        res.append(sel)
        if isinstance(sel, A.Field) or isinstance(sel, A.InlineFragment):
            res += descendant_selections(sel.selection_set)
    return res


def spreads_within(definition):
    """All FragmentSpread descendants of an executable definition."""
    return [
        sel
        for sel in descendant_selections(definition.selection_set)
        if isinstance(sel, A.FragmentSpread)
    ]


def reachable_fragments(document, definition):
    """Fragment definitions reachable from ``definition`` by following one or
    more fragment spreads (transitive, cycle safe).  ``definition`` itself is
    included iff it can reach itself."""
    frags = fragment_map(document)

    def targets(d):
        return [
            frags[s.name.value] for s in spreads_within(d) if s.name.value in frags
        ]

    seen, frontier = [], targets(definition)
    while frontier:
        new = []
        for f in frontier:
            if not any(f is s for s in seen) and not any(f is n for n in new):
                new.append(f)
        seen = seen + new
        frontier = [t for f in new for t in targets(f)]
    return seen


def variable_definitions_of(definition):
    return list(getattr(definition, "variable_definitions", None) or [])


def directive_sites(definition):
    """Yield (node carrying directives, directive location name) for every
    directive-bearing node lexically inside an executable definition."""
    if isinstance(definition, A.OperationDefinition):
        yield definition, definition.operation.upper()
    else:
        yield definition, "FRAGMENT_DEFINITION"
    for vd in variable_definitions_of(definition):
        yield vd, "VARIABLE_DEFINITION"
    for sel in descendant_selections(definition.selection_set):
        if isinstance(sel, A.Field):
            yield sel, "FIELD"
        elif isinstance(sel, A.FragmentSpread):
            yield sel, "FRAGMENT_SPREAD"
        elif isinstance(sel, A.InlineFragment):
            yield sel, "INLINE_FRAGMENT"


def argument_sites(schema, definition):
    """Yield (owner, argument definitions or None) for every field and every
    directive lexically inside an executable definition.  ``owner`` is a Field
    or Directive node; the second item is the list of argument definitions of
    the field / directive it refers to, None when that is unknown."""
    for sel, scope in definition_selections(schema, definition):
        if isinstance(sel, A.Field):
            fdef = field_definition(schema, scope, sel.name.value)
            yield sel, (None if fdef is None else list(fdef.arguments))
    for node, _ in directive_sites(definition):
        for d in node.directives:
            ddef = schema.directives.get(d.name.value)
            yield d, (None if ddef is None else list(ddef.arguments))


def owner_str(owner):
    return ("@%s" if isinstance(owner, A.Directive) else 'field "%s"') % owner.name.value


def duplicates(items, key):
    """[(key, [items with that key])] for keys occurring more than once, in
    order of first occurrence."""
    groups = {}
    for it in items:
        groups.setdefault(key(it), []).append(it)
    return [(k, v) for k, v in groups.items() if len(v) > 1]


# --------------------------------------------------------------------------
# Values
# --------------------------------------------------------------------------


def value_variable_usages(value, tref, location_has_default):
    """[(Variable node, location type ref or None, location has default)]
    for every variable inside ``value``, where ``value`` stands in a location
    of type ``tref`` (None if unknown).

    The descent mirrors literal input coercion (3.9 - 3.12): items of a list
    literal are located in the item type; a non-list literal given for a list
    type is located in the item type (single value coercion); fields of an
    object literal are located in the input field types."""
    res = []
    if isinstance(value, A.Variable):
        res.append((value, tref, location_has_default))
    elif isinstance(value, A.ListValue):
        t = nullable(tref)
        item = t[1] if is_list(t) else None
        for v in value.values:
            res += value_variable_usages(v, item, False)
    elif isinstance(value, A.ObjectValue):
        t = nullable(tref)
        while is_list(t):
            t = nullable(t[1])
        named = named_of(t)
        for f in value.fields:
            fdef = (
                named.field_map.get(f.name.value)
                if isinstance(named, InputObjectType)
                else None
            )
            res += value_variable_usages(
                f.value,
                def_tref(fdef),
                bool(fdef is not None and fdef.has_default_value),
            )
    return res


def definition_variable_usages(schema, definition):
    """Variable usages lexically inside one executable definition."""
    for owner, argdefs in argument_sites(schema, definition):
        by_name = {a.name: a for a in (argdefs or [])}
        for arg in owner.arguments:
            adef = by_name.get(arg.name.value)
            for usage in value_variable_usages(
                arg.value,
                def_tref(adef),
                bool(adef is not None and adef.has_default_value),
            ):
                yield usage


def operation_variable_usages(schema, document, operation):
    """Variable usages in the scope of an operation: the operation itself and,
    transitively, every fragment it spreads (5.8.3)."""
    return [
        usage
        for d in [operation] + reachable_fragments(document, operation)
        for usage in definition_variable_usages(schema, d)
    ]


def canonical_value(value):
    """Structural, position independent representation of a value literal,
    as a flat string (so that comparing deeply nested values never recurses).
    Int / Float literals are compared by their source text, strings by their
    value (block or not), input object fields irrespective of their order
    (2.9.8: input object literals are *unordered* lists of keyed values)."""
    if isinstance(value, A.Variable):
        return "$" + value.name.value
    if isinstance(value, (A.IntValue, A.FloatValue, A.EnumValue)):
        return str(value.value)
    if isinstance(value, A.StringValue):
        return json.dumps(value.value)
    if isinstance(value, A.BooleanValue):
        return "true" if value.value else "false"
    if isinstance(value, A.NullValue):
        return "null"
    if isinstance(value, A.ListValue):
        return "[" + ", ".join([canonical_value(v) for v in value.values]) + "]"
    if isinstance(value, A.ObjectValue):
        return (
            "{"
            + ", ".join(
                sorted(
                    ["%s: %s" % (f.name.value, canonical_value(f.value)) for f in value.fields]
                )
            )
            + "}"
        )
    return "?" + type(value).__name__


def canonical_arguments(node):
    return sorted(
        ["%s: %s" % (a.name.value, canonical_value(a.value)) for a in node.arguments]
    )


def value_str(value):
    return canonical_value(value)


# ==========================================================================
# 5.1 Documents
# ==========================================================================


def executable_definitions_rule(schema, document):
    """5.1.1 Executable Definitions: for each definition in the document,
    definition must be OperationDefinition or FragmentDefinition."""
    return [
        Violation(
            "ExecutableDefinitions",
            "%s is not an executable definition" % type(d).__name__,
            [d],
        )
        for d in document.definitions
        if not isinstance(d, (A.OperationDefinition, A.FragmentDefinition))
    ]


# ==========================================================================
# 5.2 Operations
# ==========================================================================


def unique_operation_names(schema, document):
    """5.2.1.1: for each operation definition with a name, the set of
    operations with that name must have size 1."""
    named = [o for o in operations(document) if o.name is not None]
    return [
        Violation(
            "UniqueOperationNames", 'Duplicate operation name "%s"' % name, ops
        )
        for name, ops in duplicates(named, lambda o: o.name.value)
    ]


def lone_anonymous_operation(schema, document):
    """5.2.2.1: if there is an anonymous operation and more than one
    operation in the document, that is an error."""
    ops = operations(document)
    return [
        Violation(
            "LoneAnonymousOperation",
            "An anonymous operation must be the only defined operation",
            [o],
        )
        for o in ops
        if o.name is None and len(ops) > 1
    ]


def _literal_directive_excludes(selection):
    """CollectFields 3.a/3.b with an empty variableValues map."""

    def if_arg(name):
        for d in selection.directives:
            if d.name.value == name:
                for a in d.arguments:
                    if a.name.value == "if":
                        return a.value
                return A.NullValue()
        return None

    skip, include = if_arg("skip"), if_arg("include")
    if skip is not None and isinstance(skip, A.BooleanValue) and skip.value:
        return True
    if include is not None and not (
        isinstance(include, A.BooleanValue) and include.value
    ):
        return True
    return False


def collect_root_fields(schema, document, object_type, selection_set, visited=()):
    """CollectFields(objectType, selectionSet, {}) of 6.3.2, returning the
    collected Field nodes in order (grouping is done by the caller).
    ``visited`` is the tuple of already visited fragment names; returns
    (fields, visited)."""
    frags = fragment_map(document)
    fields = []
    for sel in selection_set.selections:
        if SUBSCRIPTION_COLLECT_HONOURS_SKIP_INCLUDE and _literal_directive_excludes(sel):
            continue
        if isinstance(sel, A.Field):
            fields.append(sel)
        elif isinstance(sel, A.FragmentSpread):
            name = sel.name.value
            if name in visited:
                continue
            visited = visited + (name,)
            frag = frags.get(name)
            if frag is None:
                continue
            if not does_fragment_type_apply(schema, object_type, frag.type_condition):
                continue
            sub, visited = collect_root_fields(
                schema, document, object_type, frag.selection_set, visited
            )
            fields.extend(sub)
        elif isinstance(sel, A.InlineFragment):
            if sel.type_condition is not None and not does_fragment_type_apply(
                schema, object_type, sel.type_condition
            ):
                continue
            sub, visited = collect_root_fields(
                schema, document, object_type, sel.selection_set, visited
            )
            fields.extend(sub)
    return fields, visited


def does_fragment_type_apply(schema, object_type, type_condition):
    """DoesFragmentTypeApply of 6.3.2.  When the fragment type does not exist
    or is not composite, or the schema has no subscription root type (other
    rules are violated / nothing to decide with) the fragment is taken to
    apply."""
    t = schema.types.get(ast_named_type_name(type_condition))
    if object_type is None:
        return True
    if isinstance(t, ObjectType):
        return t is object_type
    if isinstance(t, (InterfaceType, UnionType)):
        return any(p is object_type for p in possible_types(schema, t))
    return True


def single_field_subscriptions(schema, document):
    """5.2.3.1: for each subscription operation, the grouped field set
    collected from its selection set must have exactly one entry."""
    res = []
    for op in operations(document):
        if op.operation != "subscription":
            continue
        fields, _ = collect_root_fields(
            schema, document, schema.subscription_type, op.selection_set
        )
        response_keys = []
        for f in fields:
            if f.response_name not in response_keys:
                response_keys.append(f.response_name)
        if len(response_keys) != 1:
            res.append(
                Violation(
                    "SingleFieldSubscriptions",
                    "Subscription %s must select exactly one top level field, found %d (%s)"
                    % (
                        '"%s"' % op.name.value if op.name else "<anonymous>",
                        len(response_keys),
                        ", ".join(response_keys),
                    ),
                    [op] + fields,
                )
            )
    return res


# ==========================================================================
# 5.3 Fields
# ==========================================================================


def fields_on_correct_type(schema, document):
    """5.3.1 Field Selections on Objects, Interfaces, and Unions Types: the
    target field of a selection must be defined on the scoped type of the
    selection set (unions: only __typename)."""
    return [
        Violation(
            "FieldsOnCorrectType",
            'Field "%s" is not defined on type "%s"' % (f.name.value, scope.name),
            [f],
        )
        for f, scope, fdef in document_fields(schema, document)
        if scope_known(scope) and fdef is None
    ]


# ---- 5.3.2 Field Selection Merging ---------------------------------------


def fields_in_set(schema, document, scoped_sets):
    """"The set of selections ... including visiting fragments and inline
    fragments": the (field, parent scope) pairs of the given
    [(selection set, scope)], each field node once, each named fragment
    visited once."""
    frags = fragment_map(document)
    out, seen_ids, visited = [], set(), set()

    def visit(selection_set, scope):
        for sel in selection_set.selections if selection_set is not None else ():
            if isinstance(sel, A.Field):
                if id(sel) not in seen_ids:
                    seen_ids.add(id(sel))
                    out.append((sel, scope))
            elif isinstance(sel, A.InlineFragment):
                visit(
                    sel.selection_set,
                    scope
                    if sel.type_condition is None
                    else scope_of_type_condition(schema, sel.type_condition),
                )
            elif isinstance(sel, A.FragmentSpread):
                name = sel.name.value
                if name in frags and name not in visited:
                    visited.add(name)
                    frag = frags[name]
                    visit(
                        frag.selection_set,
                        scope_of_type_condition(schema, frag.type_condition),
                    )

    for selection_set, scope in scoped_sets:
        visit(selection_set, scope)
    return out


def same_name_pairs(scoped_fields):
    """Unordered pairs of distinct members sharing a response name."""
    by_name = {}
    for entry in scoped_fields:
        by_name.setdefault(entry[0].response_name, []).append(entry)
    return [pair for group in by_name.values() for pair in combinations(group, 2)]


def all_selection_sets(schema, document):
    """[(selection set, scope)] for "any selection set defined in the
    document"."""
    res = []
    for d in executable_definitions(document):
        res.append((d.selection_set, scope_of_definition(schema, d)))
        for sel, scope in definition_selections(schema, d):
            if isinstance(sel, A.Field) and sel.selection_set is not None:
                res.append(
                    (sel.selection_set, scope_of_field_result(schema, scope, sel))
                )
            elif isinstance(sel, A.InlineFragment):
                res.append(
                    (
                        sel.selection_set,
                        scope
                        if sel.type_condition is None
                        else scope_of_type_condition(schema, sel.type_condition),
                    )
                )
    return res


def must_be_identical(scope_a, scope_b):
    """"If the parent types of fieldA and fieldB are equal or if either is
    not an Object Type".  Returns True / False, or None when it cannot be
    determined because a parent type is unknown."""
    if scope_a is scope_b or (
        not scope_known(scope_a) and not scope_known(scope_b) and scope_a == scope_b
    ):
        return True
    known = [s for s in (scope_a, scope_b) if scope_known(s)]
    if any(not isinstance(s, ObjectType) for s in known):
        return True
    if len(known) < 2:
        return None
    return False


def direct_shape_conflict(tref_a, tref_b):
    """Steps 3-5 of SameResponseShape on the two return types.  Returns
    (conflict: bool, descend: bool); descend is True when both are composite
    and the sub selections have to be compared (step 6-10)."""
    a, b = tref_a, tref_b
    while True:
        if is_nonnull(a) or is_nonnull(b):
            if not (is_nonnull(a) and is_nonnull(b)):
                return True, False
            a, b = a[1], b[1]
        if is_list(a) or is_list(b):
            if not (is_list(a) and is_list(b)):
                return True, False
            a, b = a[1], b[1]
            continue
        break
    ta, tb = a[1], b[1]
    if is_leaf_type(ta) or is_leaf_type(tb):
        return (ta is not tb), False
    if is_composite_type(ta) and is_composite_type(tb):
        return False, True
    return False, False  # not output types at all: schema problem, no verdict


def overlapping_fields_can_be_merged(schema, document):
    """5.3.2: FieldsInSetCanMerge(set) must hold for every selection set of
    the document.

    The two mutually recursive predicates of the spec are evaluated as a
    least fixed point over pairs of field nodes (which makes the evaluation
    cycle safe and polynomial):

      merge pairs  M: every same-response-name pair of fields_in_set(S) for a
                      selection set S of the document; and, for (A, B) in M
                      whose parent types are equal or not both object types
                      [and, as the spec requires of such pairs, have the same
                      name and arguments], every same-response-name pair of
                      the merged sub selection sets of A and B.
      shape pairs  S: every merge pair; and for (A, B) in S whose return types
                      are both composite after identical unwrapping, every
                      same-response-name pair of their merged sub selections.

    A violation is reported for each shape pair whose return types conflict
    (SameResponseShape false) and each must-be-identical merge pair whose
    field names or arguments differ.
    """
    res = []
    merge_seen, shape_seen = set(), set()
    work = []  # (kind, (fieldA, scopeA), (fieldB, scopeB))

    def key(a, b):
        return (id(a[0]), id(b[0])) if id(a[0]) <= id(b[0]) else (id(b[0]), id(a[0]))

    def push(kind, pairs):
        seen = merge_seen if kind == "merge" else shape_seen
        for a, b in pairs:
            k = key(a, b)
            if k not in seen:
                seen.add(k)
                work.append((kind, a, b))

    sub_cache = {}  # memo of a pure function of the field node

    def sub_fields(entry):
        field, scope = entry
        if id(field) not in sub_cache:
            sub_cache[id(field)] = fields_in_set(
                schema,
                document,
                [(field.selection_set, scope_of_field_result(schema, scope, field))],
            )
        return sub_cache[id(field)]

    def merged_pairs(a, b):
        # fields_in_set of the merged set == union (by node) of both sets
        merged, ids = [], set()
        for entry in sub_fields(a) + sub_fields(b):
            if id(entry[0]) not in ids:
                ids.add(id(entry[0]))
                merged.append(entry)
        return same_name_pairs(merged)

    for selection_set, scope in all_selection_sets(schema, document):
        push(
            "merge",
            same_name_pairs(fields_in_set(schema, document, [(selection_set, scope)])),
        )

    while work:
        kind, a, b = work.pop()
        (fa, sa), (fb, sb) = a, b
        if kind == "merge":
            push("shape", [(a, b)])
            identical = must_be_identical(sa, sb)
            if identical:
                ok = True
                if fa.name.value != fb.name.value:
                    ok = False
                    res.append(
                        Violation(
                            "OverlappingFieldsCanBeMerged",
                            'Fields "%s" conflict: "%s" and "%s" are different fields'
                            % (fa.response_name, fa.name.value, fb.name.value),
                            [fa, fb],
                        )
                    )
                elif canonical_arguments(fa) != canonical_arguments(fb):
                    ok = False
                    res.append(
                        Violation(
                            "OverlappingFieldsCanBeMerged",
                            'Fields "%s" conflict: they have differing arguments'
                            % fa.response_name,
                            [fa, fb],
                        )
                    )
                if ok:
                    push("merge", merged_pairs(a, b))
        else:
            ta = def_tref(field_definition(schema, sa, fa.name.value))
            tb = def_tref(field_definition(schema, sb, fb.name.value))
            if ta is None or tb is None:
                continue
            conflict, descend = direct_shape_conflict(ta, tb)
            if conflict:
                res.append(
                    Violation(
                        "OverlappingFieldsCanBeMerged",
                        'Fields "%s" conflict: they return conflicting types %s and %s'
                        % (fa.response_name, tref_str(ta), tref_str(tb)),
                        [fa, fb],
                    )
                )
            elif descend:
                push("shape", merged_pairs(a, b))
    return res


def scalar_leafs(schema, document):
    """5.3.3 Leaf Field Selections: a field of scalar / enum type must not
    have a sub selection; a field of object / interface / union type must
    have one."""
    res = []
    for f, scope, fdef in document_fields(schema, document):
        t = named_of(def_tref(fdef))
        if is_leaf_type(t) and f.selection_set is not None:
            res.append(
                Violation(
                    "ScalarLeafs",
                    'Field "%s" of leaf type %s must not have a sub selection'
                    % (f.name.value, tref_str(def_tref(fdef))),
                    [f],
                )
            )
        elif is_composite_type(t) and f.selection_set is None:
            res.append(
                Violation(
                    "ScalarLeafs",
                    'Field "%s" of type %s must have a sub selection'
                    % (f.name.value, tref_str(def_tref(fdef))),
                    [f],
                )
            )
    return res


# ==========================================================================
# 5.4 Arguments
# ==========================================================================


def document_argument_sites(schema, document):
    return [
        site
        for d in executable_definitions(document)
        for site in argument_sites(schema, d)
    ]


def known_argument_names(schema, document):
    """5.4.1 Argument Names: every argument provided to a field or directive
    must be defined on it."""
    return [
        Violation(
            "KnownArgumentNames",
            'Unknown argument "%s" on %s' % (arg.name.value, owner_str(owner)),
            [arg],
        )
        for owner, argdefs in document_argument_sites(schema, document)
        if argdefs is not None
        for arg in owner.arguments
        if arg.name.value not in {a.name for a in argdefs}
    ]


def unique_argument_names(schema, document):
    """5.4.2 Argument Uniqueness: purely syntactic, per field / directive."""
    return [
        Violation(
            "UniqueArgumentNames",
            'Duplicate argument "%s" on %s' % (name, owner_str(owner)),
            args,
        )
        for owner, _ in document_argument_sites(schema, document)
        for name, args in duplicates(owner.arguments, lambda a: a.name.value)
    ]


def provided_required_arguments(schema, document):
    """5.4.2.1 Required Arguments: for each argument definition of non-null
    type without default value, the argument must be provided and must not be
    the null literal."""
    res = []
    for owner, argdefs in document_argument_sites(schema, document):
        for adef in argdefs or []:
            if not (is_nonnull(def_tref(adef)) and not adef.has_default_value):
                continue
            provided = [a for a in owner.arguments if a.name.value == adef.name]
            if not provided:
                res.append(
                    Violation(
                        "ProvidedRequiredArguments",
                        'Required argument "%s" of type %s missing on %s'
                        % (adef.name, tref_str(def_tref(adef)), owner_str(owner)),
                        [owner],
                    )
                )
            for a in provided:
                if isinstance(a.value, A.NullValue):
                    res.append(
                        Violation(
                            "ProvidedRequiredArguments",
                            'Required argument "%s" of type %s on %s must not be null'
                            % (adef.name, tref_str(def_tref(adef)), owner_str(owner)),
                            [a],
                        )
                    )
    return res


# ==========================================================================
# 5.5 Fragments
# ==========================================================================


def unique_fragment_names(schema, document):
    """5.5.1.1"""
    return [
        Violation("UniqueFragmentNames", 'Duplicate fragment name "%s"' % name, frags)
        for name, frags in duplicates(
            fragment_definitions(document), lambda f: f.name.value
        )
    ]


def type_conditions(document):
    """[(node carrying it, NamedType node)] for all fragment definitions and
    inline fragments with a type condition."""
    res = []
    for d in executable_definitions(document):
        if isinstance(d, A.FragmentDefinition):
            res.append((d, d.type_condition))
        for sel in descendant_selections(d.selection_set):
            if isinstance(sel, A.InlineFragment) and sel.type_condition is not None:
                res.append((sel, sel.type_condition))
    return res


def all_variable_definitions(document):
    return [
        vd
        for d in executable_definitions(document)
        for vd in variable_definitions_of(d)
    ]


def known_type_names(schema, document):
    """5.5.1.2 Fragment Spread Type Existence (type conditions of fragment
    definitions and inline fragments must name a type of the schema), plus
    the existence half of 5.8.2 (the named type of a variable must exist)."""
    return [
        Violation(
            "KnownTypeNames",
            'Unknown type "%s" in type condition' % ast_named_type_name(tc),
            [tc],
        )
        for _, tc in type_conditions(document)
        if ast_named_type_name(tc) not in schema.types
    ] + [
        Violation(
            "KnownTypeNames",
            'Unknown type "%s" for variable "$%s"'
            % (ast_named_type_name(vd.type), vd.variable.name.value),
            [vd.type],
        )
        for vd in all_variable_definitions(document)
        if ast_named_type_name(vd.type) not in schema.types
    ]


def fragments_on_composite_types(schema, document):
    """5.5.1.3: the target type of a fragment must have kind UNION, INTERFACE
    or OBJECT."""
    return [
        Violation(
            "FragmentsOnCompositeTypes",
            'Fragment cannot condition on non composite type "%s"'
            % ast_named_type_name(tc),
            [tc],
        )
        for _, tc in type_conditions(document)
        if ast_named_type_name(tc) in schema.types
        and not is_composite_type(schema.types[ast_named_type_name(tc)])
    ]


def used_fragment_names(document):
    """Names of the fragments reachable from some operation."""
    return {
        f.name.value
        for op in operations(document)
        for f in reachable_fragments(document, op)
    }


def no_unused_fragments(schema, document):
    """5.5.1.4 Fragments Must Be Used: "defined fragments must be used within
    a document" - read as: every fragment definition is reached by at least
    one operation, directly or through other fragments.  Usage is by name
    (definitions sharing a name are all used or all unused)."""
    used = used_fragment_names(document)
    return [
        Violation("NoUnusedFragments", 'Fragment "%s" is never used' % f.name.value, [f])
        for f in fragment_definitions(document)
        if f.name.value not in used
    ]


def document_spreads(schema, document):
    return [
        (sel, scope)
        for sel, scope in document_selections(schema, document)
        if isinstance(sel, A.FragmentSpread)
    ]


def known_fragment_names(schema, document):
    """5.5.2.1 Fragment spread target defined."""
    frags = fragment_map(document)
    return [
        Violation("KnownFragmentNames", 'Unknown fragment "%s"' % s.name.value, [s])
        for s, _ in document_spreads(schema, document)
        if s.name.value not in frags
    ]


def no_fragment_cycles(schema, document):
    """5.5.2.2 Fragment spreads must not form cycles: DetectCycles fails for a
    fragment definition iff following spreads from it can come back to an
    already followed spread.  One violation is reported per fragment
    definition that lies *on* a cycle (can reach itself)."""
    return [
        Violation(
            "NoFragmentCycles",
            'Fragment "%s" spreads itself (directly or transitively)' % f.name.value,
            [f],
        )
        for f in fragment_definitions(document)
        if f.name.value in {r.name.value for r in reachable_fragments(document, f)}
    ]


def possible_types(schema, t):
    """GetPossibleTypes of 5.5.2.3."""
    if isinstance(t, ObjectType):
        return [t]
    if isinstance(t, (InterfaceType, UnionType)):
        return list(schema.get_possible_types(t))
    return []


def possible_fragment_spreads(schema, document):
    """5.5.2.3 Fragment spread is possible: for each spread (named or inline)
    with fragment type F in parent type P, the intersection of
    GetPossibleTypes(F) and GetPossibleTypes(P) must not be empty."""
    frags = fragment_map(document)
    res = []
    for sel, scope in document_selections(schema, document):
        if isinstance(sel, A.FragmentSpread):
            frag = frags.get(sel.name.value)
            if frag is None:
                continue
            tc, what = frag.type_condition, 'Fragment "%s"' % sel.name.value
        elif isinstance(sel, A.InlineFragment) and sel.type_condition is not None:
            tc, what = sel.type_condition, "Inline fragment"
        else:
            continue
        ftype = scope_of_type_condition(schema, tc)
        if not scope_known(scope) or not scope_known(ftype):
            continue
        parent_possible = possible_types(schema, scope)
        if not any(a is b for a in possible_types(schema, ftype) for b in parent_possible):
            res.append(
                Violation(
                    "PossibleFragmentSpreads",
                    '%s on type "%s" can never apply within type "%s"'
                    % (what, ftype.name, scope.name),
                    [sel],
                )
            )
    return res


# ==========================================================================
# 5.6 Values
# ==========================================================================

_INT_MIN, _INT_MAX = -(2 ** 31), 2 ** 31 - 1


def literal_errors(value, tref):
    """Literal input coercion (3.5 scalars, 3.9 enums, 3.10 input objects,
    3.11 lists, 3.12 non-null).  Returns [(offending node, message)].
    Variables are accepted everywhere (see VariablesInAllowedPosition)."""
    if tref is None or isinstance(value, A.Variable):
        return []
    if is_nonnull(tref):
        if isinstance(value, A.NullValue):
            return [(value, "Expected non-null value of type %s, found null" % tref_str(tref))]
        return literal_errors(value, tref[1])
    if isinstance(value, A.NullValue):
        return []
    if is_list(tref):
        item = tref[1]
        if isinstance(value, A.ListValue):
            errs = []
            for v in value.values:
                if (
                    not NESTED_LIST_ITEM_COERCION
                    and is_list(nullable(item))
                    and not isinstance(v, (A.ListValue, A.NullValue, A.Variable))
                ):
                    errs.append(
                        (v, "Expected list item of type %s, found %s" % (tref_str(item), value_str(v)))
                    )
                else:
                    errs.extend(literal_errors(v, item))
            return errs
        # "If the value passed as an input to a list type is not a list and
        # not the null value, ... a list of size one"
        return literal_errors(value, item)

    t = tref[1]
    bad = [(value, "Expected value of type %s, found %s" % (tref_str(tref), value_str(value)))]
    if isinstance(t, InputObjectType):
        if not isinstance(value, A.ObjectValue):
            return bad
        fmap = t.field_map
        provided = {f.name.value for f in value.fields}
        errs = []
        for f in value.fields:
            fdef = fmap.get(f.name.value)
            if fdef is None:
                errs.append(
                    (f, 'Field "%s" is not defined by input type %s' % (f.name.value, t.name))
                )
            else:
                errs.extend(literal_errors(f.value, def_tref(fdef)))
        for fdef in t.fields:
            if (
                is_nonnull(def_tref(fdef))
                and not fdef.has_default_value
                and fdef.name not in provided
            ):
                errs.append(
                    (
                        value,
                        'Required field "%s" of type %s missing in %s value'
                        % (fdef.name, tref_str(def_tref(fdef)), t.name),
                    )
                )
        return errs
    if isinstance(t, EnumType):
        if isinstance(value, A.EnumValue) and value.value in {v.name for v in t.values}:
            return []
        return bad
    if isinstance(t, ScalarType):
        name = t.name
        if name == "Int":
            if isinstance(value, A.IntValue):
                try:
                    ok = _INT_MIN <= int(value.value) <= _INT_MAX
                except ValueError:
                    ok = False
                return [] if ok else [
                    (value, "Int value %s is outside of the 32-bit range" % value.value)
                ]
            return bad
        if name == "Float":
            return [] if isinstance(value, (A.IntValue, A.FloatValue)) else bad
        if name == "String":
            return [] if isinstance(value, A.StringValue) else bad
        if name == "Boolean":
            return [] if isinstance(value, A.BooleanValue) else bad
        if name == "ID":
            return [] if isinstance(value, (A.StringValue, A.IntValue)) else bad
        return []  # custom scalar: coercion is implementation defined
    return []  # not an input type: schema / other rule's problem


def typed_value_sites(schema, document):
    """[(value node, expected type ref, description)] for every value whose
    expected type is known: arguments of fields and directives, and default
    values of variables."""
    res = []
    for owner, argdefs in document_argument_sites(schema, document):
        by_name = {a.name: a for a in (argdefs or [])}
        for arg in owner.arguments:
            adef = by_name.get(arg.name.value)
            if adef is not None:
                res.append(
                    (
                        arg.value,
                        def_tref(adef),
                        'argument "%s" of %s' % (arg.name.value, owner_str(owner)),
                    )
                )
    for vd in all_variable_definitions(document):
        tref = tref_of_ast_type(schema, vd.type)
        if (
            vd.default_value is not None
            and tref is not None
            and is_input_named_type(named_of(tref))
        ):
            res.append(
                (vd.default_value, tref, 'default value of "$%s"' % vd.variable.name.value)
            )
    return res


def values_of_correct_type(schema, document):
    """5.6.1 Values of Correct Type (with 5.6.2 Input Object Field Names and
    5.6.4 Input Object Required Fields, which are part of the coercion rules
    of input objects)."""
    return [
        Violation("ValuesOfCorrectType", "%s (%s)" % (msg, where), [node])
        for value, tref, where in typed_value_sites(schema, document)
        for node, msg in literal_errors(value, tref)
    ]


def all_values(document):
    """Every top level value of the document (arguments, defaults)."""
    res = []
    for d in executable_definitions(document):
        for node, _ in directive_sites(d):
            for dr in node.directives:
                res.extend(a.value for a in dr.arguments)
            if isinstance(node, A.Field):
                res.extend(a.value for a in node.arguments)
            if isinstance(node, A.VariableDefinition) and node.default_value is not None:
                res.append(node.default_value)
    return res


def object_values_within(value):
    res = []
    if isinstance(value, A.ObjectValue):
        res.append(value)
        for f in value.fields:
            res += object_values_within(f.value)
    elif isinstance(value, A.ListValue):
        for v in value.values:
            res += object_values_within(v)
    return res


def unique_input_field_names(schema, document):
    """5.6.3 Input Object Field Uniqueness (syntactic)."""
    return [
        Violation("UniqueInputFieldNames", 'Duplicate input field "%s"' % name, fields)
        for value in all_values(document)
        for obj in object_values_within(value)
        for name, fields in duplicates(obj.fields, lambda f: f.name.value)
    ]


# ==========================================================================
# 5.7 Directives
# ==========================================================================


def document_directive_sites(document):
    return [site for d in executable_definitions(document) for site in directive_sites(d)]


def known_directives(schema, document):
    """5.7.1 Directives Are Defined + 5.7.2 Directives Are In Valid
    Locations."""
    res = []
    for node, location in document_directive_sites(document):
        for d in node.directives:
            ddef = schema.directives.get(d.name.value)
            if ddef is None:
                res.append(
                    Violation("KnownDirectives", 'Unknown directive "@%s"' % d.name.value, [d])
                )
            elif location not in list(ddef.locations):
                res.append(
                    Violation(
                        "KnownDirectives",
                        'Directive "@%s" may not be used on %s' % (d.name.value, location),
                        [d],
                    )
                )
    return res


def unique_directives_per_location(schema, document):
    """5.7.3 Directives Are Unique Per Location."""
    return [
        Violation(
            "UniqueDirectivesPerLocation",
            'Directive "@%s" used more than once at the same location' % name,
            ds,
        )
        for node, _ in document_directive_sites(document)
        for name, ds in duplicates(node.directives, lambda d: d.name.value)
    ]


# ==========================================================================
# 5.8 Variables
# ==========================================================================


def unique_variable_names(schema, document):
    """5.8.1 Variable Uniqueness (per operation)."""
    return [
        Violation("UniqueVariableNames", 'Duplicate variable "$%s"' % name, vds)
        for d in executable_definitions(document)
        for name, vds in duplicates(
            variable_definitions_of(d), lambda vd: vd.variable.name.value
        )
    ]


def variables_are_input_types(schema, document):
    """5.8.2 Variables Are Input Types.  (A variable type that does not exist
    at all is reported by KnownTypeNames only.)"""
    return [
        Violation(
            "VariablesAreInputTypes",
            'Variable "$%s" cannot be of non input type %s'
            % (vd.variable.name.value, ast_type_str(vd.type)),
            [vd],
        )
        for vd in all_variable_definitions(document)
        if ast_named_type_name(vd.type) in schema.types
        and not is_input_named_type(schema.types[ast_named_type_name(vd.type)])
    ]


def op_name(op):
    return '"%s"' % op.name.value if op.name is not None else "<anonymous>"


def no_undefined_variables(schema, document):
    """5.8.3 All Variable Uses Defined: for each operation, each variable
    usage in its scope (including transitively spread fragments) must be in
    the operation's variable list."""
    res = []
    for op in operations(document):
        defined = {vd.variable.name.value for vd in op.variable_definitions}
        for var, _, _ in operation_variable_usages(schema, document, op):
            if var.name.value not in defined:
                res.append(
                    Violation(
                        "NoUndefinedVariables",
                        'Variable "$%s" is not defined by operation %s'
                        % (var.name.value, op_name(op)),
                        [var, op],
                    )
                )
    return res


def no_unused_variables(schema, document):
    """5.8.4 All Variables Used."""
    res = []
    for op in operations(document):
        used = {
            var.name.value for var, _, _ in operation_variable_usages(schema, document, op)
        }
        for vd in op.variable_definitions:
            if vd.variable.name.value not in used:
                res.append(
                    Violation(
                        "NoUnusedVariables",
                        'Variable "$%s" is never used in operation %s'
                        % (vd.variable.name.value, op_name(op)),
                        [vd],
                    )
                )
    return res


def are_types_compatible(variable_type, location_type):
    """AreTypesCompatible of 5.8.5."""
    if is_nonnull(location_type):
        if not is_nonnull(variable_type):
            return False
        return are_types_compatible(variable_type[1], location_type[1])
    if is_nonnull(variable_type):
        return are_types_compatible(variable_type[1], location_type)
    if is_list(location_type):
        if not is_list(variable_type):
            return False
        return are_types_compatible(variable_type[1], location_type[1])
    if is_list(variable_type):
        return False
    return variable_type[1] is location_type[1]


def is_variable_usage_allowed(variable_type, variable_default, location_type, location_has_default):
    """IsVariableUsageAllowed of 5.8.5."""
    if is_nonnull(location_type) and not is_nonnull(variable_type):
        has_non_null_variable_default = variable_default is not None and not isinstance(
            variable_default, A.NullValue
        )
        if not has_non_null_variable_default and not location_has_default:
            return False
        return are_types_compatible(variable_type, location_type[1])
    return are_types_compatible(variable_type, location_type)


def variables_in_allowed_position(schema, document):
    """5.8.5 All Variable Usages are Allowed."""
    res = []
    for op in operations(document):
        vdefs = {}
        for vd in op.variable_definitions:
            vdefs.setdefault(vd.variable.name.value, vd)
        for var, location_type, location_has_default in operation_variable_usages(
            schema, document, op
        ):
            vd = vdefs.get(var.name.value)
            if vd is None or location_type is None:
                continue
            variable_type = tref_of_ast_type(schema, vd.type)
            if variable_type is None:
                continue
            if not is_variable_usage_allowed(
                variable_type, vd.default_value, location_type, location_has_default
            ):
                res.append(
                    Violation(
                        "VariablesInAllowedPosition",
                        'Variable "$%s" of type %s used in position expecting type %s'
                        % (var.name.value, tref_str(variable_type), tref_str(location_type)),
                        [var, vd],
                    )
                )
    return res


# ==========================================================================
# Public interface
# ==========================================================================

RULES = {
    "ExecutableDefinitions": executable_definitions_rule,
    "UniqueOperationNames": unique_operation_names,
    "LoneAnonymousOperation": lone_anonymous_operation,
    "SingleFieldSubscriptions": single_field_subscriptions,
    "FieldsOnCorrectType": fields_on_correct_type,
    "OverlappingFieldsCanBeMerged": overlapping_fields_can_be_merged,
    "ScalarLeafs": scalar_leafs,
    "KnownArgumentNames": known_argument_names,
    "UniqueArgumentNames": unique_argument_names,
    "ProvidedRequiredArguments": provided_required_arguments,
    "UniqueFragmentNames": unique_fragment_names,
    "KnownTypeNames": known_type_names,
    "FragmentsOnCompositeTypes": fragments_on_composite_types,
    "NoUnusedFragments": no_unused_fragments,
    "KnownFragmentNames": known_fragment_names,
    "NoFragmentCycles": no_fragment_cycles,
    "PossibleFragmentSpreads": possible_fragment_spreads,
    "ValuesOfCorrectType": values_of_correct_type,
    "UniqueInputFieldNames": unique_input_field_names,
    "KnownDirectives": known_directives,
    "UniqueDirectivesPerLocation": unique_directives_per_location,
    "UniqueVariableNames": unique_variable_names,
    "VariablesAreInputTypes": variables_are_input_types,
    "NoUndefinedVariables": no_undefined_variables,
    "NoUnusedVariables": no_unused_variables,
    "VariablesInAllowedPosition": variables_in_allowed_position,
}


def validate(schema, document):
    """All violations of all rules, in RULES order."""
    # The helpers recurse on the nesting depth of the document; make sure a
    # document that some parser configuration accepted cannot overflow here.
    limit = sys.getrecursionlimit()
    try:
        if limit < 20000:
            sys.setrecursionlimit(20000)
        return [v for rule in RULES.values() for v in rule(schema, document)]
    finally:
        sys.setrecursionlimit(limit)


def violated_rules(schema, document):
    """Sorted list of the names of the rules the document violates."""
    return sorted({v.rule for v in validate(schema, document)})
