"""Driver for Engine B (vf/llk): the predictive parser against the specification grammar, per flag valuation.

Obligations (one each, ids `Parser.<method>(<args>)[ts=?,fv=?]:<kind>`):
  P1 language equality of the method's body (callees by their nonterminal) with the specification's right-hand side   -> C01
  P2 prediction: no look-ahead the grammar allows is routed away from the alternative that can take it (per decision tree) -> C01
  P3 progress: no cycle without consumption, no nullable left recursion                                                 -> C01
  P0 call sites establish callee look-ahead preconditions; P6 list results are empty exactly when nothing was consumed   -> C01
  P4 raise sites: syntax errors positioned at a token of the text; token attributes total                               -> C01
  P5 node class / constructor keywords / span discipline of every node built                                             -> C02
Verdicts: failed P1 / P2 obligations come with a symbol word; it is made concrete (vf/llk/witness.py), the real method is run on it and
compared with the Earley oracle over spec/grammar.py: a disagreement is a replayed failing input, otherwise no-failing-input-found.
Extraction failures (code left the idioms the extractor knows) -> degraded, never a violation; the bounded pipeline check decides.
"""
import time

from vf.report import MachineryDefect

BACKEND = "llk extraction + regular-language / FIRST-FOLLOW analysis"
VALUATIONS = [(True, False), (True, True), (False, False), (False, True)]


def run(run, pid):
    import contracts.parser_map as M
    import py_gql.lang.ast as AST
    import py_gql.lang.parser as P
    import spec.grammar as G
    from vf.llk import analysis as AN, extract as X, predict as PR, shape as SH, witness as W
    t0 = time.time()
    cov = run.cov
    A = X.Alphabet(P)
    verdicts = {}
    seen_shape = set()
    n_ob = 0

    def ob(oid, holds, text, witness=None, replayed=False, resolved=None):
        nonlocal n_ob
        n_ob += 1
        cov["obligations"] += 1
        cov["backends"][BACKEND] = cov["backends"].get(BACKEND, 0) + 1
        if holds:
            cov["discharged"] += 1
            if resolved:
                run.note("%s: %s" % (oid, resolved)) if hasattr(run, "note") else None
            return True
        # one violation per (method, kind): the flag valuation is part of the witness, not of the clause id
        import re as _re
        clause = _re.sub(r"\[ts=\d,fv=\d\]", "", oid)
        run.violation(clause, text, dict(witness or {}, obligation=oid), replayed, extra={"obligation": oid, "solver": BACKEND, "solver_status": "refuted"})
        return False

    for ts, fv in VALUATIONS:
        flags = dict(allow_type_system=ts, experimental_fragment_variables=fv)
        tag = "[ts=%d,fv=%d]" % (ts, fv)
        m = AN.Model(P, A, flags, G.GRAMMAR, M)
        try:
            m.reach([(n, a) for _e, n, a in M.ENTRIES])
        except KeyError as e:
            raise MachineryDefect("parser_map has no entry for %s" % e)
        if m.spec.missing_keywords:
            raise MachineryDefect("keywords of the specification missing from the code alphabet: %s" % sorted(m.spec.missing_keywords))
        if pid == "C01":
            for dname, dtext in getattr(M, "DRIVERS", {}).items():
                m.add_driver(getattr(P, dname), dtext)
        for key, err in m.errors.items():
            q = "Parser.%s%s" % (m.key_text(key), tag)
            cov["degraded_functions"].append({"function": q, "reason": "extraction failed: %s" % err})
            verdicts[q] = "degraded"
        if not m.auts:
            continue
        try:
            anchors = m.anchors()
            entries = {("parse_document", ()): {()}, ("parse_value_literal", (False,)): {("EOF",)}, ("parse_type_reference", ()): {("EOF",)}}
            entries = {k: v for k, v in entries.items() if k in m.auts}
            for dk in [k for k in m.auts if k[0].endswith("@module")]:
                entries[dk] = {()}
            pr = PR.Predict(m, anchors, entries) if pid == "C01" and not m.errors else None
        except (KeyError, RecursionError, X.Unsupported) as e:
            cov["degraded_functions"].append({"function": "Parser%s" % tag, "reason": "analysis failed: %r" % (e,)})
            continue
        short = None
        # P6 is what callers rely on when they test the emptiness of a callee's list: only those callees carry the obligation
        tested_callees = {lab[1] for aut_ in m.auts.values() for _s, _d, lab in aut_.edges if lab[0] == "n" and lab[3] is not None}
        for key in sorted(m.auts, key=repr):
            q = "Parser.%s%s" % (m.key_text(key), tag)
            aut = m.auts[key]
            ok = True
            if pid == "C01":
                # P1
                try:
                    r = m.p1(key, anchors)
                except (KeyError, RecursionError, X.Unsupported, MemoryError) as e:
                    cov["degraded_functions"].append({"function": q, "reason": "P1 not generated: %r" % (e,)})
                    verdicts[q] = "degraded"
                    continue
                if not r["holds"]:
                    short = short or W.Shortest(fv, A.names)
                    spec_of = m._driver_spec[key] if key in getattr(m, "_driver_spec", {}) else M.spec_text(key[0], key[1], flags)
                    # concrete inputs: the shortest string of the symbol word first, then strings in which one of its nonterminals contains
                    # a chosen token (a difference between two anchors, e.g. Directives[V] / Directives[K], shows only inside them), for
                    # the word of either side; the first on which the real method and the Earley oracle disagree is the replayed input
                    replayed = False
                    first = None
                    for raw in (r["raw_word"], r.get("other_raw_word")):
                        if raw is None or replayed:
                            continue
                        for atoms in short.variants(list(raw)):
                            text = W.text_of(atoms)
                            got = W.run_method(P, key[0], key[1], flags, text)
                            want = W.oracle(spec_of, flags, text)
                            first = first or (text, got, want)
                            if want is not None and ((got[0] == "accept") != bool(want) or got[0] == "crash"):
                                replayed = True
                                break
                    if not replayed:
                        text, got, want = first
                    ok &= ob(q + ":P1", False, "%s and the specification's %s differ: the symbol word [%s] is accepted by %s; concrete input %r: method %s, grammar %s" % (
                        m.key_text(key), spec_of, " ".join(r["word"]), r["accepted_by"], text, got,
                        "derives it" if want else "does not derive it"),
                        {"method": key[0], "args": list(key[1]), "flags": flags, "word": r["word"], "text": text, "method_verdict": list(got), "grammar_derives": want}, replayed)
                else:
                    ob(q + ":P1", True, "")
                # P6
                bad6 = m.p6(key)
                if key[0] in tested_callees and any(r_["kind"] == "list" for r_ in aut.returns):
                    ok &= ob(q + ":P6", not bad6, "%s returns a list whose emptiness does not coincide with having consumed nothing (callers test `not xs`)" % m.key_text(key),
                             {"method": key[0], "returns": [{k: v for k, v in b.items() if k in ("line", "list", "consumed")} for b in bad6[:3]]})
                if pr is not None:
                    for r2 in pr.p2(key):
                        oid = "%s:P2@%s" % (q, r2["decision"].split(" (")[0].replace(" ", "_"))
                        if r2["holds"]:
                            ob(oid, True, "", resolved=r2["resolved"])
                            if r2["resolved"]:
                                cov.setdefault("resolved_by_spec_lookahead", [])
                                if oid not in cov["resolved_by_spec_lookahead"]:
                                    cov["resolved_by_spec_lookahead"].append(oid)
                            continue
                        c = r2["conflicts"][0]
                        ok &= ob(oid, False, "%s, decision %s: look-ahead %s is routed to [%s] but the grammar continues at [%s]" % (
                            m.key_text(key), r2["decision"], c["lookahead"], c["selected"], c["grammar_continues_at"]),
                            {"method": key[0], "args": list(key[1]), "flags": flags, "conflicts": r2["conflicts"]}, False)
                    ok &= ob(q + ":P3", not pr.p3(key), "%s has a cycle that consumes no token" % m.key_text(key), {"method": key[0], "nodes": pr.p3(key)[:4]})
                    for r0 in pr.p0(key):
                        ok &= ob("%s:P0@L%d" % (q, r0["line"]), r0["holds"], "%s calls %s without having established that the next token is one of its required classes (look-ahead known: %s)" % (
                            m.key_text(key), r0["callee"], r0["la1"]), {"method": key[0], "callee": r0["callee"], "line": r0["line"]})
                for k2, pk in enumerate(aut.peek2):
                    ok &= ob("%s:P7@L%d" % (q, pk["line"]), pk["la1"] is not None and "EOF" not in pk["la1"],
                             "%s looks two tokens ahead at line %d without having excluded that the next token is EOF: Parser._advance_window then never returns "
                             "(the lexer is exhausted and the buffer is not empty)" % (m.key_text(key), pk["line"]), {"method": key[0], "line": pk["line"]})
                for o in SH.p4(aut):
                    sid = "Parser.%s:P4:%s" % (key[0], o["id"])
                    if sid in seen_shape:
                        continue
                    seen_shape.add(sid)
                    ok &= ob(sid, o["holds"], "%s: %s" % (key[0], o["detail"]), {"method": key[0], "detail": o["detail"]})
            if pid == "C02":
                for o in SH.p5(aut, M.NODES.get(key[0], ()), AST, M.ORDER) + SH.p5_nothing_dropped(aut):
                    sid = "Parser.%s:P5:%s" % (m.key_text(key), o["id"])
                    if sid in seen_shape:
                        continue
                    seen_shape.add(sid)
                    ok &= ob(sid, o["holds"], "%s: %s" % (m.key_text(key), o["detail"]), {"method": key[0], "detail": o["detail"]})
            verdicts[q] = "proved" if ok else "violated"
        if pr is not None:
            lr = pr.left_recursion()
            ob("Parser%s:P3:left-recursion" % tag, not lr, "nullable left recursion through %s" % [m.key_text(k) for k in lr], {"methods": [m.key_text(k) for k in lr]})
    for o in SH.primitives(P.Parser) + SH.token_attributes(A):
        if (pid == "C02") == (o["id"].endswith(("_loc", "_last"))):
            ob(o["id"] + (":P5" if pid == "C02" else ":P4"), o["holds"], o["detail"], {"detail": o["detail"]})
    if n_ob == 0:
        raise MachineryDefect("Engine B generated no obligation")
    names = sorted({k.split("[")[0] for k in verdicts})
    cov["functions_under_contract"] += ["%s (llk)" % n for n in names]
    cov["solver_time_s"] += time.time() - t0
    cov["parts"]["engine_b"] = {"methods": len(names), "valuations": len(VALUATIONS), "degraded": sorted(k for k, v in verdicts.items() if v == "degraded"),
                                "violated": sorted(k for k, v in verdicts.items() if v == "violated")}
    run.assume("Engine B meta-theorem (trusted): P1-P3 for every method and flag valuation + determinism of the code imply that parse / parse_value / parse_type "
               "accept exactly the token sequences the specification grammar derives, provided the interpreter's recursion limit is not hit")
    run.assume("Engine B: the token-stream primitives peek / advance / expect / expect_keyword / skip / _advance_window behave as the abstract stream "
               "(their raise sites and the _last / _loc discipline are checked syntactically; their buffer handling is bounded only)")
    return verdicts
