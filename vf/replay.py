"""./check replay <replays/<id>/NNN.json>

Re-evaluates the contract clause a replay file names against the real code of the current tree: the owning property's check is re-run
(its inputs are enumerated deterministically, so the recorded witness is evaluated again) with its outputs redirected to a scratch
directory, and the verdict for that clause is reported. Exit 1 when the clause is still violated, 0 when it now holds.
"""
import json
import os
import shutil
import subprocess
import sys
import tempfile

from .report import ROOT


def main(path):
    if not path:
        print("usage: ./check replay <file>")
        sys.exit(2)
    with open(path if os.path.isabs(path) else os.path.join(ROOT, path)) as f:
        rec = json.load(f)
    pid, clause = rec["property"], rec["clause"]
    print("replay: property=%s clause=%s" % (pid, clause))
    print("  recorded: %s" % str(rec.get("what"))[:400])
    print("  witness : %s" % json.dumps(rec.get("witness"), default=str)[:600])
    if rec.get("solver_output"):
        print("  verifier: %s" % str(rec["solver_output"])[:600])
    out = tempfile.mkdtemp(prefix="vf-replay-")
    try:
        env = dict(os.environ, VF_OUT=out)
        subprocess.run([sys.executable, "-m", "vf.cli", pid, "--tier", rec.get("tier", "quick")], env=env, cwd=ROOT,
                       stdout=subprocess.DEVNULL, stderr=subprocess.DEVNULL)
        again = []
        d = os.path.join(out, "replays", pid)
        for name in sorted(os.listdir(d)) if os.path.isdir(d) else []:
            with open(os.path.join(d, name)) as f:
                r = json.load(f)
            if r.get("clause") == clause:
                again.append(r)
    finally:
        shutil.rmtree(out, ignore_errors=True)
    if again:
        print("  now     : STILL VIOLATED on the current tree: %s" % str(again[0].get("what"))[:400])
        sys.exit(1)
    print("  now     : clause holds on the current tree (or is a listed known finding)")
    sys.exit(0)
