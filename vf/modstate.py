"""Frame / memo obligations on module-level state (all inputs, all call histories).

What a function of the listed modules returns may depend on its arguments only.  Generated from the modules' current source on every run:

  modstate:<module>:functions-write-no-module-state        no function, method or lambda of the module writes a module-level container
                                                            (subscript store / delete, mutating method call, `global`) - discharged when none does.
  modstate:<module>.<function>:key-covers:<read>            a function that does write one is accepted when the write is a memo
                                                                try: return CACHE[key]  except KeyError: <miss: compute, CACHE[key] = v>
                                                            (the hit may also be `x = CACHE[key]; continue`; the miss code may follow the try statement) and every value the miss code reads - parameters,
                                                            earlier locals, attributes of them such as self.indent - is a component of `key` (the value
                                                            itself, a prefix of the attribute chain read, tuple(v) / frozenset(v), or a local computed from
                                                            components only).  A read the key does not determine is a violation: the cached result of one call
                                                            is returned to a call that differs in that value.
A write that has neither shape is reported as undecided (the function is listed degraded): module state as such is not a violation of anything.

Assumed: key components are compared the way the memo needs (hashable, equal iff interchangeable); names that are neither parameters nor locals of the
function (module globals, builtins, imported helpers) are constant.
"""
import ast
import re
import importlib
import inspect

BACKEND = "module-state data-flow"
MUTATORS = ("append", "add", "update", "setdefault", "pop", "clear", "extend", "insert", "remove", "discard", "popitem", "appendleft", "move_to_end")


def _dotted(e):
    """'a.b.c' for an attribute chain rooted at a Name, else None"""
    parts = []
    while isinstance(e, ast.Attribute):
        parts.append(e.attr)
        e = e.value
    if isinstance(e, ast.Name):
        return ".".join([e.id] + parts[::-1])
    return None


def _writes(fn, containers):
    out = {}
    for x in ast.walk(fn):
        tgt = None
        if isinstance(x, ast.Subscript) and isinstance(x.ctx, (ast.Store, ast.Del)) and isinstance(x.value, ast.Name):
            tgt = x.value.id
        if isinstance(x, ast.Call) and isinstance(x.func, ast.Attribute) and isinstance(x.func.value, ast.Name) and x.func.attr in MUTATORS:
            tgt = x.func.value.id
        if isinstance(x, ast.Global):
            for g in x.names:
                out.setdefault(g, x.lineno)
        if tgt in containers:
            out.setdefault(tgt, x.lineno)
    return out


def _blocks(fn):
    """every statement list of the function with the statements in it"""
    for n in ast.walk(fn):
        for field in ("body", "orelse", "finalbody"):
            b = getattr(n, field, None)
            if isinstance(b, list) and b and isinstance(b[0], ast.stmt):
                yield b
        if isinstance(n, ast.Try):
            for h in n.handlers:
                yield h.body


def _memo(fn, cache):
    """-> (try node, key expr, miss statements) when the function reads `cache` through the memo shape, else None"""
    for block in _blocks(fn):
        for i, st in enumerate(block):
            if not isinstance(st, ast.Try) or not 1 <= len(st.body) <= 2:
                continue
            if len(st.body) == 2 and not isinstance(st.body[1], (ast.Continue, ast.Break, ast.Return)):
                continue
            # the hit: `return CACHE[key]`, or `x = CACHE[key]` followed by continue / break / return
            looks = [x for x in ast.walk(st.body[0]) if isinstance(x, ast.Subscript) and isinstance(x.ctx, ast.Load) and isinstance(x.value, ast.Name) and x.value.id == cache]
            if len(looks) != 1 or not isinstance(st.body[0], (ast.Return, ast.Assign)):
                continue
            hs = [h for h in st.handlers if isinstance(h.type, ast.Name) and h.type.id == "KeyError"]
            if hs:
                return st, looks[0].slice, list(hs[0].body) + list(block[i + 1:])
    return None


def _self_reads_of_method(cls, name, seen=()):
    """the self.<attr> state a method of the class reads (methods it calls on self followed, three levels deep); None when the method is not found"""
    if cls is None or name in seen or len(seen) > 3:
        return None
    m = next((x for x in cls.body if isinstance(x, (ast.FunctionDef, ast.AsyncFunctionDef)) and x.name == name), None)
    if m is None or not m.args.args or m.args.args[0].arg != "self":
        return None
    methods = {x.name for x in cls.body if isinstance(x, (ast.FunctionDef, ast.AsyncFunctionDef))}
    out = set()
    for n in ast.walk(m):
        if isinstance(n, ast.Attribute) and isinstance(n.value, ast.Name) and n.value.id == "self" and isinstance(n.ctx, ast.Load):
            if n.attr in methods:
                sub = _self_reads_of_method(cls, n.attr, seen + (name,))
                if sub is None:
                    return None
                out |= sub
            else:
                out.add("self." + n.attr)
    return out


def _function_obligations(modname, qual, fn, cache, cls=None):
    shape = _memo(fn, cache)
    if shape is None:
        return None
    try_node, key, miss = shape
    params = {a.arg for a in fn.args.args + fn.args.kwonlyargs + getattr(fn.args, "posonlyargs", [])}
    if fn.args.vararg:
        params.add(fn.args.vararg.arg)
    if fn.args.kwarg:
        params.add(fn.args.kwarg.arg)
    assigns = {}
    for n in ast.walk(fn):
        if isinstance(n, ast.Assign) and n.lineno < try_node.lineno:
            for t in n.targets:
                if isinstance(t, ast.Name):
                    assigns.setdefault(t.id, []).append(n.value)

    def components(e, seen=()):
        if isinstance(e, ast.Tuple):
            return [c for x in e.elts for c in components(x, seen)]
        if isinstance(e, ast.Name) and e.id in assigns and len(assigns[e.id]) == 1 and e.id not in seen and isinstance(assigns[e.id][0], (ast.Tuple, ast.Name, ast.Attribute)):
            return [e] + components(assigns[e.id][0], seen + (e.id,))
        if isinstance(e, ast.Call) and isinstance(e.func, ast.Name) and e.func.id in ("tuple", "frozenset") and len(e.args) == 1 and not e.keywords:
            return components(e.args[0], seen)
        return [e]
    comps = {_dotted(c) for c in components(key)} - {None}

    def determined(d, seen=()):
        """d: dotted read.  Determined when a key component is d or a prefix of its chain, or d is a local computed from determined reads only"""
        parts = d.split(".")
        if any(".".join(parts[:k]) in comps for k in range(1, len(parts) + 1)):
            return True
        root = parts[0]
        if len(parts) == 1 and root in assigns and len(assigns[root]) == 1 and root not in seen:
            return all(determined(r, seen + (root,)) for r in _reads(assigns[root][0]))
        return False

    def _reads(node):
        """dotted reads of parameters / earlier locals in a node: maximal attribute chains"""
        out, skip = set(), set()
        for n in ast.walk(node):
            if id(n) in skip:
                continue
            if isinstance(n, (ast.Attribute, ast.Name)) and isinstance(getattr(n, "ctx", None), ast.Load):
                d = _dotted(n)
                if d is None:
                    continue
                for sub in ast.walk(n):
                    skip.add(id(sub))
                root = d.split(".")[0]
                if root in params or root in assigns:
                    out.add(d)
        return out
    local_in_miss = {n.id for st in miss for n in ast.walk(st) if isinstance(n, ast.Name) and isinstance(n.ctx, ast.Store)}
    reads = set()
    for st in miss:
        reads |= {d for d in _reads(st) if d.split(".")[0] not in local_in_miss}
    # a method called on self stands for the state of self it reads (self._render(...) reads self.indent): what must be in the key is that state
    expanded = set()
    for d in reads:
        parts = d.split(".")
        sub = _self_reads_of_method(cls, parts[1]) if len(parts) == 2 and parts[0] == "self" else None
        expanded |= sub if sub is not None else {d}
    reads = expanded
    key_names = {n.id for n in ast.walk(key) if isinstance(n, ast.Name)}
    out = []
    for d in sorted(reads):
        if d in key_names or d == cache:
            continue
        out.append({"id": "modstate:%s.%s:key-covers:%s" % (modname, qual, d), "holds": determined(d),
                    "detail": "%s.%s keeps results in the module-level %s under the key `%s`, but computing a result reads %s, which that key does not determine: "
                              "a result computed for one %s is returned to a call with another" % (modname, qual, cache, ast.unparse(key), d, d),
                    "function": "%s.%s" % (modname, qual)})
    if not out:
        out.append({"id": "modstate:%s.%s:key-covers:(nothing else read)" % (modname, qual), "holds": True, "detail": "", "function": "%s.%s" % (modname, qual)})
    return out


_CONFLATING = {"Any", "object", "int", "float", "bool", "complex", "Hashable", "Number", "Real", "Decimal"}


def _decorator_memos(modname, M, tree):
    """functions memoised by a decorator (functools.lru_cache / functools.cache): a process-wide memo keyed by the call's arguments under == / hash.  The answer is a
    function of the arguments only if equal keys mean equal arguments: 1 == True == 1.0 (and tuples of them) are equal keys for different values, so a parameter that may
    hold numbers - annotated Any / object / int / float / bool, or not annotated - refutes the obligation (typed=True separates only the top-level classes and is accepted for
    parameters annotated with the plain number classes); str / bytes and classes that compare by identity are fine; anything else is undecided."""
    obs, undecided = [], []

    def deco_name(d):
        call = d if not isinstance(d, ast.Call) else d.func
        name = call.attr if isinstance(call, ast.Attribute) else getattr(call, "id", None)
        typed = isinstance(d, ast.Call) and any(k.arg == "typed" and isinstance(k.value, ast.Constant) and k.value.value is True for k in d.keywords)
        return name, typed

    def names_in(ann):
        return {n.id for n in ast.walk(ann) if isinstance(n, ast.Name)} | {n.attr for n in ast.walk(ann) if isinstance(n, ast.Attribute)} | \
               {w for n in ast.walk(ann) if isinstance(n, ast.Constant) and isinstance(n.value, str) for w in re.findall(r"\w+", n.value)}

    def visit(node, prefix):
        for n in ast.iter_child_nodes(node):
            if isinstance(n, ast.ClassDef):
                visit(n, prefix + n.name + ".")
            elif isinstance(n, (ast.FunctionDef, ast.AsyncFunctionDef)):
                for d in n.decorator_list:
                    name, typed = deco_name(d)
                    if name not in ("lru_cache", "cache", "memoize", "memoized", "cached"):
                        continue
                    qual = "%s.%s%s" % (modname, prefix, n.name)
                    params = [a for a in n.args.args + n.args.kwonlyargs if a.arg not in ("self", "cls")]
                    if n.args.vararg or n.args.kwarg:
                        params.append(ast.arg(arg="*", annotation=None))
                    bad, unknown = [], []
                    for a in params:
                        if a.annotation is None:
                            bad.append("%s (not annotated)" % a.arg)
                            continue
                        ns = names_in(a.annotation) - {"Optional", "Union", "None", "Sequence", "Tuple", "List", "FrozenSet", "Type", "typing", "t"}
                        hit = ns & _CONFLATING
                        if hit == {"bool"}:
                            hit = set()          # a parameter that only ever holds True / False has nothing to conflate
                        if hit and not (typed and ns <= {"int", "float", "bool", "complex"}):
                            bad.append("%s: %s" % (a.arg, ast.unparse(a.annotation)))
                            continue
                        for nm in ns - {"str", "bytes", "bool"} - _CONFLATING:
                            cls = getattr(M, nm, None)
                            if not (isinstance(cls, type) and cls.__eq__ is object.__eq__ and cls.__hash__ is object.__hash__):
                                unknown.append("%s: %s" % (a.arg, nm))
                    oid = "modstate:%s:memo-key-distinguishes-arguments" % qual
                    if bad:
                        obs.append({"id": oid, "holds": False, "function": qual,
                                    "detail": "%s is memoised by @%s for the life of the process; its key compares arguments with == / hash, which takes 1, True and 1.0 (alone or inside "
                                              "tuples) for the same key although they are different arguments: parameter(s) %s" % (qual, name, "; ".join(bad))})
                    elif unknown:
                        undecided.append((qual, "memoised by @%s; whether equal keys mean equal arguments is not decided for %s" % (name, "; ".join(unknown))))
                    else:
                        obs.append({"id": oid, "holds": True, "function": qual, "detail": ""})
                visit(n, prefix + n.name + ".")
            else:
                visit(n, prefix)
    visit(tree, "")
    return obs, undecided


def obligations(modules):
    """-> (obligations, undecided [(function, reason)])"""
    obs, undecided = [], []
    for modname in modules:
        M = importlib.import_module(modname)
        tree = ast.parse(inspect.getsource(M))
        containers = {n for n, v in vars(M).items() if isinstance(v, (dict, list, set, bytearray)) or type(v).__name__ in ("defaultdict", "OrderedDict", "deque", "Counter")
                      if not n.startswith("__")}
        writers = []

        def visit(node, prefix):
            for n in ast.iter_child_nodes(node):
                if isinstance(n, (ast.FunctionDef, ast.AsyncFunctionDef)):
                    w = _writes(n, containers)
                    if w:
                        writers.append((prefix + n.name, n, w, node if isinstance(node, ast.ClassDef) else None))
                elif isinstance(n, ast.ClassDef):
                    visit(n, prefix + n.name + ".")
                elif isinstance(n, ast.Lambda):
                    w = _writes(n, containers)
                    if w:
                        writers.append((prefix + "<lambda:%d>" % n.lineno, n, w, None))
                else:
                    visit(n, prefix)
        visit(tree, "")
        memo_obs, memo_und = _decorator_memos(modname, M, tree)
        obs += memo_obs
        undecided += memo_und
        if not writers:
            obs.append({"id": "modstate:%s:functions-write-no-module-state" % modname, "holds": True, "detail": "", "function": modname})
            continue
        for qual, fn, w, cls in writers:
            for cache, line in sorted(w.items()):
                got = _function_obligations(modname, qual, fn, cache, cls) if not isinstance(fn, ast.Lambda) else None
                if got is None:
                    undecided.append(("%s.%s" % (modname, qual), "writes the module-level %s (line %d) outside a recognised memo shape: whether its result still depends "
                                                                 "on its arguments only is not decided here" % (cache, line)))
                else:
                    obs += got
    return obs, undecided


# the modules whose functions a property's answer is computed by (the property quantifies over call histories, or its answer must be a function of the input)
MODULES = {
    "C02": (["py_gql.lang.parser", "py_gql.lang.lexer", "py_gql.lang.token"], "the tree is a function of the text and the options"),
    "C03": (["py_gql.lang.printer"], "printing is a function of the tree"),
    "C04": (["py_gql.execution.executor", "py_gql.execution.blocking_executor", "py_gql.execution.wrappers", "py_gql.utilities.collect_fields"], "one request does not depend on earlier ones"),
    "C06": (["py_gql.validation.validate", "py_gql.validation.visitors", "py_gql.validation.rules", "py_gql.validation.rules.overlapping_fields_can_be_merged",
             "py_gql.validation.rules.values_of_correct_type"], "the verdict is a function of schema and document"),
    "C07": (["py_gql.utilities.coerce_value", "py_gql.utilities.value_from_ast", "py_gql.schema.scalars"], "coercion is a function of type and value"),
    "C10": (["py_gql._graphql", "py_gql.exc", "py_gql._string_utils"], "the response is a function of the request"),
    "C11": (["py_gql.sdl.ast_type_builder", "py_gql.sdl.schema_from_ast"], "the schema is a function of the document"),
    "C12": (["py_gql.sdl.ast_schema_printer", "py_gql.utilities.ast_node_from_value", "py_gql.lang.printer"], "serialisation is history-independent"),
    "C13": (["py_gql.schema.validation"], "the verdict is a function of the schema"),
    "C15": (["py_gql.schema.introspection", "py_gql.utilities.ast_node_from_value"], "introspection reports the schema it is asked about"),
    "C19": (["py_gql.utilities.max_depth", "py_gql.utilities.collect_fields"], "the verdict is a function of document, limit and variables"),
    "C20": (["py_gql.schema.differ"], "the changes are a function of the two schemas"),
}


def run(run, pid):
    if pid in MODULES:
        account(run, *MODULES[pid])


def account(run, modules, what):
    obs, undecided = obligations(modules)
    cov = run.cov
    for o in obs:
        cov["obligations"] += 1
        cov["backends"][BACKEND] = cov["backends"].get(BACKEND, 0) + 1
        if o["holds"]:
            cov["discharged"] += 1
        else:
            run.violation(o["id"], o["detail"], {"obligation": o["id"]}, False, extra={"obligation": o["id"], "solver": BACKEND, "solver_status": "refuted"})
    for fn, reason in undecided:
        cov["degraded_functions"].append({"function": fn, "reason": reason})
    cov["functions_under_contract"] += ["%s (frame: module state; %s)" % (m, what) for m in modules]
    cov["parts"]["module_state"] = {"modules": list(modules), "obligations": len(obs), "undecided": len(undecided)}
    run.assume("module state: key components of a module-level memo are compared the way the memo needs; names that are neither parameters nor locals are constant")
    return len(obs)
