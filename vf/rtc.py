"""Engine C core: the *same* sidecar contract text evaluated by CPython around the real function.

Used for (1) replaying solver counter-models on the real code, (2) bounded stand-ins: contracts
are installed over the real functions (every reference found by identity is rebound) and checked
on every call made while an enumerated input space is driven through the public entry points.
"""
import ast
import copy
import importlib
import inspect
import sys

from .pyvc.verify import resolve_target


class _OldRewriter(ast.NodeTransformer):
    def __init__(self):
        self.olds = []

    def visit_Call(self, node):
        if isinstance(node.func, ast.Name) and node.func.id == "old" and len(node.args) == 1:
            self.olds.append(node.args[0])
            return ast.copy_location(ast.Name(id="__old%d" % (len(self.olds) - 1), ctx=ast.Load()), node)
        return self.generic_visit(node)


def implies(a, b):
    return (not a) or bool(b)


def forall(lo, hi, f):
    return all(f(k) for k in range(lo, hi))


def exists(lo, hi, f):
    return any(f(k) for k in range(lo, hi))


BASE_ENV = {"implies": implies, "forall": forall, "exists": exists}


class Clause:
    """One contract clause compiled for concrete evaluation."""
    _cache = {}

    def __init__(self, text):
        tree = ast.parse(text.strip(), mode="eval")
        rw = _OldRewriter()
        tree = ast.fix_missing_locations(rw.visit(tree))
        self.text = text
        self.code = compile(tree, "<clause>", "eval")
        self.olds = [compile(ast.fix_missing_locations(ast.Expression(o)), "<old>", "eval") for o in rw.olds]

    @classmethod
    def get(cls, text):
        c = cls._cache.get(text)
        if c is None:
            c = cls._cache[text] = cls(text)
        return c

    def snapshot(self, env):
        return [eval(o, env) for o in self.olds]

    def holds(self, env, olds):
        e = dict(env)
        for i, v in enumerate(olds):
            e["__old%d" % i] = v
        return bool(eval(self.code, e))


class ContractFailure:
    def __init__(self, contract, kind, clause, text, call, detail):
        self.contract, self.kind, self.clause, self.text = contract, kind, clause, text
        self.call, self.detail = call, detail

    @property
    def clause_id(self):
        return "%s:%s:%s" % (self.contract.qualname, self.kind, self.clause)


class Checker:
    """Evaluates a contract around one concrete call of the real function."""

    def __init__(self, contract, spec_funcs, func=None):
        self.contract = contract
        self.spec = spec_funcs
        self.func = func
        self.sig = None
        self.evaluations = 0
        self.nontrivial = set()

    def env_for(self, func, bound):
        env = dict(func.__globals__)
        env.update(self.spec)
        env.update(BASE_ENV)
        env.update(bound)
        # name-mangled private parameters appear unmangled in contract text
        for p in list(bound):
            if p.startswith("_") and not p.startswith("__") and "__" in p[1:]:
                env[p[p.index("__", 1):]] = bound[p]
        return env

    def call(self, func, args, kwargs, describe=None):
        """returns (outcome, failures); outcome = ('ret', value) | ('raise', exc)"""
        c = self.contract
        if self.sig is None:
            self.sig = inspect.signature(func)
        ba = self.sig.bind(*args, **kwargs)
        ba.apply_defaults()
        bound = dict(ba.arguments)
        pre_bound = dict(bound)
        if "self" in bound:
            try:
                pre_bound["self"] = copy.copy(bound["self"])
            except Exception:
                pass
        pre_env = self.env_for(func, pre_bound)
        failures = []
        call_desc = describe(bound) if describe else None
        for name, text in c.requires:
            try:
                ok = Clause.get(text).holds(pre_env, Clause.get(text).snapshot(pre_env))
            except Exception as e:  # a precondition that cannot be evaluated is not met
                ok = False
            if not ok:
                return None, [ContractFailure(c, "requires", name, text, call_desc, "precondition not met")]
        snaps = {}
        for group in [c.ensures] + list(c.raises.values()):
            for name, text in group:
                cl = Clause.get(text)
                try:
                    snaps[text] = cl.snapshot(pre_env)
                except Exception as e:
                    snaps[text] = e
        try:
            outcome = ("ret", func(*args, **kwargs))
        except BaseException as e:
            if isinstance(e, (KeyboardInterrupt, SystemExit, RecursionError, MemoryError)):
                raise
            outcome = ("raise", e)
        self.evaluations += 1
        env = self.env_for(func, bound)
        if outcome[0] == "ret":
            env["result"] = outcome[1]
            for name, text in c.ensures:
                failures += self._check(func, "ensures", name, text, env, snaps, call_desc)
        else:
            exc = outcome[1]
            match = None
            for ename in c.raises:
                ecls = env.get(ename) or getattr(__import__("builtins"), ename, None)
                if ecls is None:
                    import py_gql.exc as E
                    ecls = getattr(E, ename)
                if type(exc) is ecls:
                    match = ename
                    break
            if match is None:
                for ename in c.raises:
                    ecls = env.get(ename) or getattr(__import__("builtins"), ename, None) or getattr(__import__("py_gql.exc", fromlist=["x"]), ename)
                    if isinstance(exc, ecls):
                        match = ename
                        break
            if match is None:
                failures.append(ContractFailure(c, "raises", "undeclared:%s" % type(exc).__name__,
                                                "no exception of class %s may escape" % type(exc).__name__,
                                                call_desc, repr(exc)[:200]))
            else:
                env["exc"] = exc
                for name, text in c.raises[match]:
                    failures += self._check(func, "raises", "%s.%s" % (match, name), text, env, snaps, call_desc)
        return outcome, failures

    def _check(self, func, kind, name, text, env, snaps, call_desc):
        snap = snaps.get(text)
        if isinstance(snap, Exception):
            return [ContractFailure(self.contract, kind, name, text, call_desc, "old() not evaluable: %r" % snap)]
        try:
            ok = Clause.get(text).holds(env, snap)
        except Exception as e:
            return [ContractFailure(self.contract, kind, name, text, call_desc, "clause raised %r" % e)]
        if not ok:
            return [ContractFailure(self.contract, kind, name, text, call_desc, "clause is false")]
        return []


class Installed:
    """Contracts installed over the real functions for a bounded run."""

    def __init__(self, contracts, spec_funcs, describe=None):
        self.spec = spec_funcs
        self.failures = []
        self.checkers = {}
        self.patches = []
        self.describe = describe
        self.depth = 0
        for c in contracts:
            if c.assumed:
                continue
            try:
                mod, owner, func = resolve_target(c.target)
            except (AttributeError, KeyError, ImportError):
                # the function under contract is gone (renamed, inlined): nothing to wrap - the whole-text laws of the stand-in still judge the behaviour
                self.missing = getattr(self, "missing", []) + [c.qualname]
                continue
            ck = Checker(c, spec_funcs, func)
            self.checkers[c.qualname] = ck
            wrapper = self._wrap(ck, func)
            name = c.qualname.split(".")[-1]
            if owner is not None:
                self.patches.append((owner, name, owner.__dict__[name]))
                setattr(owner, name, wrapper)
            else:
                # rebind every module-level reference to the original (from x import f copies)
                for m in list(sys.modules.values()):
                    d = getattr(m, "__dict__", None)
                    if not d:
                        continue
                    for k, v in list(d.items()):
                        if v is func:
                            self.patches.append((m, k, func))
                            setattr(m, k, wrapper)

    def _wrap(self, ck, func):
        inst = self

        def wrapper(*args, **kwargs):
            outcome, fails = ck.call(func, args, kwargs, inst.describe)
            if fails:
                if outcome is None:
                    # precondition not met at a call site inside the library
                    inst.failures += fails
                    return func(*args, **kwargs)
                inst.failures += fails
            if outcome[0] == "ret":
                return outcome[1]
            raise outcome[1]
        wrapper.__wrapped__ = func
        wrapper.__name__ = getattr(func, "__name__", "wrapped")
        return wrapper

    def uninstall(self):
        for owner, name, orig in reversed(self.patches):
            setattr(owner, name, orig)
        self.patches = []

    def take_failures(self):
        f, self.failures = self.failures, []
        return f

    def evaluations(self):
        return {q: ck.evaluations for q, ck in self.checkers.items()}
