"""Static slot-coverage obligations on ASTPrinter (C03), from the real source of the print_* methods (re-read on every run).

For every node class K dispatched by ASTPrinter.__call__ to a method M and every slot s of K (contracts/parser_map.ORDER - the same slot
table the parser's P5 obligations use): M reads `node.s`, directly or through a helper it hands the node itself to
(`self.print_directives(node)`, `self.print_arguments(node)`, ...).  A slot that is never read cannot appear in the output, so
parse(print(tree)) cannot equal tree wherever that slot is set: the obligation is necessary for the round trip, for all trees.
Sufficiency (that what is read is printed in a form that parses back) is the bounded stand-in's business.
"""
import ast
import inspect
import textwrap


class Unsupported(Exception):
    pass


def dispatch_table(printer_cls):
    tree = ast.parse(textwrap.dedent(inspect.getsource(printer_cls.__call__)))
    out = {}
    for n in ast.walk(tree):
        if isinstance(n, ast.Dict):
            for k, v in zip(n.keys, n.values):
                if isinstance(k, ast.Attribute) and isinstance(k.value, ast.Name) and k.value.id == "_ast" and isinstance(v, ast.Attribute):
                    out[k.attr] = v.attr
    if not out:
        raise Unsupported("dispatch table of ASTPrinter.__call__ not found")
    return out


def slots_read(printer_cls, method, _seen=None):
    """names of the attributes of its node parameter that `method` reads, following self.<helper>(node) calls"""
    _seen = _seen if _seen is not None else set()
    if method in _seen:
        return set()
    _seen.add(method)
    f = printer_cls.__dict__.get(method)
    if f is None:
        return set()
    tree = ast.parse(textwrap.dedent(inspect.getsource(f))).body[0]
    if len(tree.args.args) < 2:
        return set()
    param = tree.args.args[1].arg
    out = set()
    for n in ast.walk(tree):
        if isinstance(n, ast.Attribute) and isinstance(n.value, ast.Name) and n.value.id == param:
            out.add(n.attr)
        if isinstance(n, ast.Call) and isinstance(n.func, ast.Attribute) and isinstance(n.func.value, ast.Name) and n.func.value.id == "self":
            if any(isinstance(a, ast.Name) and a.id == param for a in n.args):
                out |= slots_read(printer_cls, n.func.attr, _seen)
    return out


def obligations(printer_cls, order):
    table = dispatch_table(printer_cls)
    obs = []
    for cls, method in sorted(table.items()):
        if cls not in order:
            continue
        read = slots_read(printer_cls, method)
        for slot in order[cls]:
            ok = slot in read
            obs.append({"id": "ASTPrinter:slot:%s.%s:printed" % (cls, slot), "holds": ok, "cls": cls, "slot": slot,
                        "detail": "read by %s" % method if ok else "%s never reads %s.%s: whatever the tree holds there is missing from the output" % (method, cls, slot)})
    missing = sorted(set(order) - set(table))
    obs.append({"id": "ASTPrinter:dispatch:every-node-kind", "holds": not missing, "cls": None, "slot": None,
                "detail": "ok" if not missing else "node kinds without a print method: %s" % missing})
    return obs
