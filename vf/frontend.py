"""Shared front-end machinery (C01-C03): namespaces, class-representative alphabet, bounded
enumeration, spec validation, lexer replay/instantiation, bounded lexer stand-in."""
import itertools
import multiprocessing as mp
import os
import sys

import spec.lexical as SL
import spec.lexical_regex as SR
import spec.blockstring as SB

# one or two representatives of every character class that the lexer, the printer, the block
# string algorithm or the lexical specification distinguish
ALPHABET = [
    '"', "\\", "/", "u", "b", "n", "x", "F", "0", "1", "9", "\u0663", "\u00b9", "e", "E", "+", "-",
    ".", "_", " ", "\t", "\n", "\r", "\ufeff", "\u00a0", "\u2028", "\x07", "\U0001F600", "#", ",", "{", "!", "&",
]
SMALL_ALPHABET = ['"', "\\", "u", "0", "1", "a", "e", "-", ".", " ", "\n", "#", "{", "\u0663"]


def spec_namespace():
    import py_gql.lang.token as T
    ns = {k: v for k, v in vars(T).items() if isinstance(v, type)}
    ns.update({k: v for k, v in vars(SL).items() if not k.startswith("__")})
    ns["block_string_value"] = SB.block_string_value
    return ns


def strings(alphabet, max_len):
    for n in range(max_len + 1):
        for tup in itertools.product(alphabet, repeat=n):
            yield "".join(tup)


# -------------------------------------------------------------------------------------------
# spec validation: functional lexical spec == declarative regex grammar, whole-text tokenisation

def spec_tokens(s):
    out, q = [], 0
    while True:
        t = SL.lex(s, q)
        if t[0] == SL.K_ERROR:
            return None
        out.append(t)
        if t[0] == SL.K_EOF:
            return out
        q = t[2]


def _number_then_dot(s, toks):
    return toks is not None and any(k in (SR.K_INT, SR.K_FLOAT) and e < len(s) and s[e] == "." for k, _a, e in toks)


def _validate_chunk(args):
    prefix_list, alphabet, tail_len = args
    n = skipped = 0
    bad = []
    for prefix in prefix_list:
        for tail in strings(alphabet, tail_len):
            s = prefix + tail
            n += 1
            a = SR.tokens(s)
            if _number_then_dot(s, a):
                skipped += 1
                continue
            b = spec_tokens(s)
            if a != b and len(bad) < 5:
                bad.append((s, a, b))
    return n, skipped, bad


def validate_lexical_spec(max_len, alphabet=ALPHABET, jobs=16):
    """all strings over the alphabet of length <= max_len (prefix-partitioned across processes)"""
    head = min(2, max_len)
    prefixes = list(strings(alphabet, head))
    full = [p for p in prefixes if len(p) == head]
    short = [p for p in prefixes if len(p) < head]
    chunks = [([p], alphabet, max_len - head) for p in full]
    total = skipped = 0
    bad = []
    n0, s0, b0 = _validate_chunk((short, alphabet, 0))
    total, skipped, bad = n0, s0, b0
    ctx = mp.get_context("fork")
    with ctx.Pool(jobs) as pool:
        for n, sk, b in pool.imap_unordered(_validate_chunk, chunks, chunksize=8):
            total += n
            skipped += sk
            bad += b
    return total, skipped, bad[:5]


# -------------------------------------------------------------------------------------------
# lexer instantiation for replay

def lexer_instantiate(contract, model, case=None):
    from py_gql.lang.lexer import Lexer
    lx = Lexer.__new__(Lexer)
    src = model["self._source"]
    lx._source = src
    lx._len = len(src)
    lx._done = bool(model.get("self._done", False))
    lx._started = bool(model.get("self._started", True))
    lx._position = int(model["self._position"])
    return [lx], {}


# -------------------------------------------------------------------------------------------
# structured enumerations reaching the long tokens (escapes need 8+ characters)

NUMBER_PIECES = ["-", "0", "1", "9", ".", "e", "E", "+", "a"]
STRING_PIECES = ['"', "a", " ", "\\u0041", "\\u00e9", "\\uD83D", "\\u00g1", "\\u12", "\\n", '\\"', "\\\\", "\\/", "\\x",
                 "\\", "\n", "\x07", "٣", "\U0001F600", '"""', '\\"""']


def piece_strings(pieces, max_pieces, prefix="", suffix=""):
    for n in range(max_pieces + 1):
        for tup in itertools.product(pieces, repeat=n):
            yield prefix + "".join(tup) + suffix


def lexer_corpus(tier):
    """texts driven through the real lexer with contracts installed (bounded stand-in)."""
    if tier == "thorough":
        a, b, npc, spc = 4, 5, 6, 4
    else:
        a, b, npc, spc = 3, 4, 5, 3
    seen = set()
    gens = [strings(ALPHABET, a), strings(SMALL_ALPHABET, b), piece_strings(NUMBER_PIECES, npc),
            piece_strings(STRING_PIECES, spc, prefix='"'), piece_strings(STRING_PIECES, spc, prefix='"""'),
            piece_strings(STRING_PIECES, spc - 1, prefix='x "', suffix='" 1')]
    for g in gens:
        for s in g:
            if s not in seen:
                seen.add(s)
                yield s


def _lex_all(text):
    from py_gql.lang.lexer import Lexer
    from py_gql.exc import GraphQLSyntaxError
    try:
        return [(type(t).__name__, t.start, t.end, t.value) for t in Lexer(text)], None
    except GraphQLSyntaxError as e:
        return None, e


def _standin_chunk(args):
    texts, contracts = args
    from . import rtc
    ns = spec_namespace()
    inst = rtc.Installed(contracts, ns)
    fails, n, accepted = [], 0, 0
    try:
        for text in texts:
            n += 1
            err = None
            try:
                toks, err = _lex_all(text)
            except Exception as e:  # non-syntax exception escaping the lexer
                fails.append(("Lexer.__next__:raises:undeclared:%s" % type(e).__name__, text, repr(e)))
                continue
            if toks is not None:
                accepted += 1
                # whole-text law: the token sequence is the specification's tokenisation
                st = spec_tokens(text)
                got = [(k, a, b) for k, a, b in ((x[0], x[1], x[2]) for x in toks[1:])]
                if st is None or [(a, b) for _k, a, b in st] != [(a, b) for _k, a, b in got]:
                    fails.append(("Lexer:tokenisation", text, "tokens %r but specification says %r" % (got, st)))
            else:
                if spec_tokens(text) is not None:
                    fails.append(("Lexer:tokenisation", text, "rejected (%s) but the specification tokenises it" % type(err).__name__))
            for f in inst.take_failures():
                fails.append((f.clause_id, text, "%s: %s" % (f.text, f.detail)))
            if err is not None and fails and fails[-1][1] is text:
                fails = [(c, {"text": t, "exc_position": err.position, "len": len(text), "exc": type(err).__name__}, d)
                         if t is text else (c, t, d) for c, t, d in fails]
    finally:
        evals = inst.evaluations()
        inst.uninstall()
    return n, accepted, fails, evals


def lexer_standin(contracts, tier, jobs=16):
    texts = list(lexer_corpus(tier))
    size = max(1, len(texts) // (jobs * 8))
    chunks = [(texts[i:i + size], contracts) for i in range(0, len(texts), size)]
    total = accepted = 0
    fails, evals = [], {}
    ctx = mp.get_context("fork")
    with ctx.Pool(jobs) as pool:
        for n, acc, f, ev in pool.imap_unordered(_standin_chunk, chunks):
            total += n
            accepted += acc
            fails += f
            for k, v in ev.items():
                evals[k] = evals.get(k, 0) + v
    return total, accepted, fails, evals
