"""Shared front-end machinery (C01-C03): namespaces, class-representative alphabet, bounded
enumeration, spec validation, lexer replay/instantiation, bounded lexer stand-in."""
import itertools
import multiprocessing as mp
import os
import sys

import spec.lexical as SL
import spec.lexical_regex as SR
import spec.blockstring as SB

# one or two representatives of every character class that the lexer, the printer, the block
# string algorithm or the lexical specification distinguish
ALPHABET = [
    '"', "\\", "/", "u", "b", "n", "x", "F", "0", "1", "9", "\u0663", "\u00b9", "e", "E", "+", "-",
    ".", "_", " ", "\t", "\n", "\r", "\ufeff", "\u00a0", "\u2028", "\x07", "\U0001F600", "#", ",", "{", "!", "&",
]
SMALL_ALPHABET = ['"', "\\", "u", "0", "1", "a", "e", "-", ".", " ", "\n", "#", "{", "\u0663"]


def spec_namespace():
    import py_gql.lang.token as T
    ns = {k: v for k, v in vars(T).items() if isinstance(v, type)}
    ns.update({k: v for k, v in vars(SL).items() if not k.startswith("__")})
    ns["block_string_value"] = SB.block_string_value
    return ns


def strings(alphabet, max_len):
    for n in range(max_len + 1):
        for tup in itertools.product(alphabet, repeat=n):
            yield "".join(tup)


# -------------------------------------------------------------------------------------------
# spec validation: functional lexical spec == declarative regex grammar, whole-text tokenisation

def spec_tokens(s):
    out, q = [], 0
    while True:
        t = SL.lex(s, q)
        if t[0] == SL.K_ERROR:
            return None
        out.append(t)
        if t[0] == SL.K_EOF:
            return out
        q = t[2]


def _number_then_dot(s, toks):
    return toks is not None and any(k in (SR.K_INT, SR.K_FLOAT) and e < len(s) and s[e] == "." for k, _a, e in toks)


def _validate_chunk(args):
    prefix_list, alphabet, tail_len = args
    n = skipped = 0
    bad = []
    for prefix in prefix_list:
        for tail in strings(alphabet, tail_len):
            s = prefix + tail
            n += 1
            a = SR.tokens(s)
            if _number_then_dot(s, a):
                skipped += 1
                continue
            b = spec_tokens(s)
            if a != b and len(bad) < 5:
                bad.append((s, a, b))
    return n, skipped, bad


def validate_lexical_spec(max_len, alphabet=ALPHABET, jobs=16):
    """all strings over the alphabet of length <= max_len (prefix-partitioned across processes)"""
    head = min(2, max_len)
    prefixes = list(strings(alphabet, head))
    full = [p for p in prefixes if len(p) == head]
    short = [p for p in prefixes if len(p) < head]
    chunks = [([p], alphabet, max_len - head) for p in full]
    total = skipped = 0
    bad = []
    n0, s0, b0 = _validate_chunk((short, alphabet, 0))
    total, skipped, bad = n0, s0, b0
    ctx = mp.get_context("fork")
    with ctx.Pool(jobs) as pool:
        for n, sk, b in pool.imap_unordered(_validate_chunk, chunks, chunksize=8):
            total += n
            skipped += sk
            bad += b
    return total, skipped, bad[:5]


# -------------------------------------------------------------------------------------------
# lexer instantiation for replay

def lexer_instantiate(contract, model, case=None):
    from py_gql.lang.lexer import Lexer
    lx = Lexer.__new__(Lexer)
    src = model["self._source"]
    lx._source = src
    lx._len = len(src)
    lx._done = bool(model.get("self._done", False))
    lx._started = bool(model.get("self._started", True))
    lx._position = int(model["self._position"])
    return [lx], {}


# -------------------------------------------------------------------------------------------
# structured enumerations reaching the long tokens (escapes need 8+ characters)

NUMBER_PIECES = ["-", "0", "1", "9", ".", "e", "E", "+", "a"]
STRING_PIECES = ['"', "a", " ", "\\u0041", "\\u00e9", "\\uD83D", "\\u00g1", "\\u12", "\\n", '\\"', "\\\\", "\\/", "\\x",
                 "\\", "\n", "\x07", "٣", "\U0001F600", '"""', '\\"""']


def piece_strings(pieces, max_pieces, prefix="", suffix=""):
    for n in range(max_pieces + 1):
        for tup in itertools.product(pieces, repeat=n):
            yield prefix + "".join(tup) + suffix


def lexer_corpus(tier):
    """texts driven through the real lexer with contracts installed (bounded stand-in)."""
    if tier == "thorough":
        a, b, npc, spc = 4, 5, 6, 4
    else:
        a, b, npc, spc = 3, 4, 5, 3
    seen = set()
    gens = [strings(ALPHABET, a), strings(SMALL_ALPHABET, b), piece_strings(NUMBER_PIECES, npc),
            piece_strings(STRING_PIECES, spc, prefix='"'), piece_strings(STRING_PIECES, spc, prefix='"""'),
            piece_strings(STRING_PIECES, spc - 1, prefix='x "', suffix='" 1')]
    for g in gens:
        for s in g:
            if s not in seen:
                seen.add(s)
                yield s


def _lex_all(text):
    from py_gql.lang.lexer import Lexer
    from py_gql.exc import GraphQLSyntaxError
    try:
        return [(type(t).__name__, t.start, t.end, t.value) for t in Lexer(text)], None
    except GraphQLSyntaxError as e:
        return None, e


def _standin_chunk(args):
    texts, contracts = args
    from . import rtc
    ns = spec_namespace()
    inst = rtc.Installed(contracts, ns)
    fails, n, accepted = [], 0, 0
    try:
        for text in texts:
            n += 1
            err = None
            try:
                toks, err = _lex_all(text)
            except Exception as e:  # non-syntax exception escaping the lexer
                fails.append(("Lexer.__next__:raises:undeclared:%s" % type(e).__name__, text, repr(e)))
                continue
            if toks is not None:
                accepted += 1
                # whole-text law: the token sequence is the specification's tokenisation
                st = spec_tokens(text)
                got = [(k, a, b) for k, a, b in ((x[0], x[1], x[2]) for x in toks[1:])]
                if st is None or [(a, b) for _k, a, b in st] != [(a, b) for _k, a, b in got]:
                    fails.append(("Lexer:tokenisation", text, "tokens %r but specification says %r" % (got, st)))
            else:
                if spec_tokens(text) is not None:
                    fails.append(("Lexer:tokenisation", text, "rejected (%s) but the specification tokenises it" % type(err).__name__))
            for f in inst.take_failures():
                fails.append((f.clause_id, text, "%s: %s" % (f.text, f.detail)))
            if err is not None and fails and fails[-1][1] is text:
                fails = [(c, {"text": t, "exc_position": err.position, "len": len(text), "exc": type(err).__name__}, d)
                         if t is text else (c, t, d) for c, t, d in fails]
    finally:
        evals = inst.evaluations()
        inst.uninstall()
    return n, accepted, fails, evals


def lexer_standin(contracts, tier, jobs=16, only=None):
    texts = [t for t in lexer_corpus(tier) if only is None or only(t)]
    size = max(1, len(texts) // (jobs * 8))
    chunks = [(texts[i:i + size], contracts) for i in range(0, len(texts), size)]
    total = accepted = 0
    fails, evals = [], {}
    ctx = mp.get_context("fork")
    with ctx.Pool(jobs) as pool:
        for n, acc, f, ev in pool.imap_unordered(_standin_chunk, chunks):
            total += n
            accepted += acc
            fails += f
            for k, v in ev.items():
                evals[k] = evals.get(k, 0) + v
    return total, accepted, fails, evals


# -------------------------------------------------------------------------------------------
# whole pipeline: parse / parse_value / parse_type verdict == Earley verdict over the spec grammar

FLAG_COMBOS = [(ats, efv, nl) for ats in (True, False) for efv in (False, True) for nl in (False, True)]


def _entry_call(entry):
    from py_gql.lang import parser as P
    return {"document": P.parse, "value": P.parse_value, "type": P.parse_type}[entry]


def judge_text(entry, text, ats, efv, nl, as_bytes=False):
    """run the real parser; returns (accepted, failure-or-None, exc)"""
    from py_gql.exc import GraphQLSyntaxError
    src = text.encode("utf8") if as_bytes else text
    try:
        node = _entry_call(entry)(src, allow_type_system=ats, experimental_fragment_variables=efv, no_location=nl)
        return True, None, node
    except GraphQLSyntaxError as e:
        fail = None
        if not (isinstance(e.position, int) and 0 <= e.position <= len(text)):
            fail = ("parse:position-in-text", {"text": text, "exc": type(e).__name__, "exc_position": e.position, "len": len(text)},
                    "syntax error position %r outside the submitted text of length %d" % (e.position, len(text)))
        else:
            try:
                msg = str(e)
                d = e.to_dict()
                if not isinstance(msg, str) or not isinstance(d, dict):
                    fail = ("parse:renderable", {"text": text}, "str()/to_dict() returned %r / %r" % (type(msg), type(d)))
            except Exception as e2:
                fail = ("parse:renderable", {"text": text, "exc": type(e).__name__, "exc_position": e.position, "len": len(text),
                                             "render_error": type(e2).__name__},
                        "rendering the syntax error raised %r" % (e2,))
        return False, fail, e
    except RecursionError:
        raise
    except Exception as e:
        return None, ("parse:only-syntax-errors", {"text": text, "exc": type(e).__name__, "flags": [ats, efv, nl]},
                      "parser raised %r instead of a syntax error" % (e,)), e


def _pipeline_chunk(args):
    items, tier = args
    from spec import grammar as G
    n = acc = 0
    fails = []
    for entry, text in items:
        for ats, efv, nl in FLAG_COMBOS:
            if entry != "document" and (not ats or efv):
                continue       # the flags only affect documents
            n += 1
            expected = G.accepts(text, entry, allow_type_system=ats, fragment_variables=efv)
            got, fail, obj = judge_text(entry, text, ats, efv, nl)
            if fail:
                fails.append(fail)
            if got is not None and got != expected:
                fails.append(("parse:accepts-exactly-the-grammar",
                              {"text": text, "entry": entry, "flags": {"allow_type_system": ats, "experimental_fragment_variables": efv},
                               "grammar": expected, "parser": got},
                              "parser %s a text the grammar %s" % ("accepts" if got else "rejects", "derives" if expected else "does not derive")))
            acc += bool(got)
        # with no options given a document is parsed as an EXECUTABLE document without the experimental extensions: the type-system grammar is "when enabled",
        # and this is what the request entry points do with a query text
        if entry == "document":
            from py_gql.exc import GraphQLSyntaxError
            from py_gql.lang import parse as _parse
            n += 1
            want_default = G.accepts(text, entry, allow_type_system=False, fragment_variables=False)
            try:
                _parse(text)
                got_default = True
            except GraphQLSyntaxError:
                got_default = False
            except RecursionError:
                raise
            except Exception:
                got_default = None          # (reported by the flagged runs above)
            if got_default is not None and got_default != want_default:
                fails.append(("parse:accepts-exactly-the-grammar", {"text": text, "entry": entry, "flags": "defaults", "grammar": want_default, "parser": got_default},
                              "parse(text) with default options %s a text the executable grammar %s" % (
                                  "accepts" if got_default else "rejects", "derives" if want_default else "does not derive")))
        # bytes input must behave exactly like str input
        a1, _f, o1 = judge_text(entry, text, True, False, True)
        a2, f2, o2 = judge_text(entry, text, True, False, True, as_bytes=True)
        n += 1
        if a1 != a2 or (a1 and o1 != o2) or (a1 is False and (type(o1) is not type(o2) or o1.position != o2.position)):
            fails.append(("parse:bytes-equals-str", {"text": text, "entry": entry}, "UTF-8 bytes input behaves differently from str input"))
        if f2:
            fails.append(f2)
    return n, acc, fails


HAND_DOCUMENTS = [
    "{ hero: hero { name: name } }",
    "query q($a: Int = 1 @d) { a: a(a: $a) @a(a: a) { ... on a @a { a } } }",
    'enum Color { "the red one" RED """green""" GREEN @d BLUE }',
    '"t" type T implements I & J @d { "f" f("a" a: Int = 1 @d): [Int!]! @d } "i" interface I { "g" g: Int } interface J { h: Int }',
    '"in" input In @d { "x" x: Int = 1 @d y: [In!] = [] }',
    '"dir" directive @d("a" a: Int = 1) on QUERY | MUTATION | SUBSCRIPTION | FIELD | FRAGMENT_DEFINITION | FRAGMENT_SPREAD | INLINE_FRAGMENT | VARIABLE_DEFINITION '
    "| SCHEMA | SCALAR | OBJECT | FIELD_DEFINITION | ARGUMENT_DEFINITION | INTERFACE | UNION | ENUM | ENUM_VALUE | INPUT_OBJECT | INPUT_FIELD_DEFINITION",
    'schema @d { query: Q mutation: M subscription: S } extend schema @e extend schema { mutation: M }',
    '"u" union U @d = | A | B extend union U = C extend scalar S @d "s" scalar S2',
    "extend type T implements K extend type T @d extend type T { x: Int } extend interface I @d extend enum E { X } extend input In { z: Int }",
    "fragment on_ on on { on } query on { ...on_ ... on on { on } ... @d { on } }",
    "{ a(x: [[1, [2]], {a: {b: [true, null, E, $v, \"s\", \"\"\"b\"\"\", 1.5e3]}}]) }",
    "subscription s { type: type input: input enum: enum extend: extend fragment: fragment }",
]

# const-ness: every place of the grammar whose directives / default values are [Const], once with a constant and once with a variable at
# three depths (the second forms are outside the grammar)
_CONST_SITES = [
    "scalar S %s", "type T %s { f: Int }", "type T implements I %s", "type T { f: Int %s }", "type T { f(a: Int %s): Int }", "type T { f(a: Int = %v): Int }",
    "interface I %s { f: Int }", "interface I %s", "union U %s = A", "union U %s", "enum E %s { A }", "enum E %s", "enum E { A %s }", "input In %s { x: Int }",
    "input In %s", "input In { x: Int %s }", "input In { x: Int = %v }", "schema %s { query: Q }", "extend schema %s", "extend scalar S %s", "extend type T %s",
    "extend type T %s { f: Int }", "extend interface I %s", "extend union U %s", "extend union U %s = A", "extend enum E %s", "extend enum E %s { A }",
    "extend input In %s", "extend input In %s { x: Int }", "directive @x(a: Int = %v) on FIELD", "directive @x(a: Int %s) on FIELD",
    "query ($a: Int = %v) { f }", "query ($a: Int %s) { f }", "query ($a: Int) %s { f }", "{ f %s }", "{ ...F %s }", "{ ... %s { f } }", "fragment F on T %s { f }",
]
_CONST_VALUES = ["1", "$v", "[$v]", "{k: $v}", "[[{k: [$v]}]]", "[1, $v]", "{j: 1, k: $v}"]      # (also at a position that is not the first of its list / object)
# a query (keyword form, nothing that forces the keyword) right after a type-system definition without a body: the printer must not fall back to the
# short form there
# text that Unicode normalisation or a line-splitting helper would change: combining sequences, compatibility characters, the separators str.splitlines knows
# beyond LF / CR - in string and block string literals, descriptions and comments (they are ordinary source characters)
HAND_DOCUMENTS += ['{ f(s: "cafe\u0301 \u212b ngstro\u0308m \u1112\u1161\u11ab \uf900") g(s: "a\u2028b\u2029c\u0085d\u001ce") } # cafe\u0301 \u2028 tail',
                   '{ f(s: """x\u2028y\n  cafe\u0301\u0085z""") }',
                   '"de\u0301sc \u2029 ription" type A { "\u212b" a(x: String = "o\u0308\u0085"): Int } """\n  blo\u2028ck\n""" enum E { A }']
HAND_DOCUMENTS += ["%s query { a }" % d for d in ("type A", "input I", "extend schema @d", "enum E", "extend enum E @d", "interface I", "scalar S", "union U",
                                                   "type A implements B", "extend type A @d", "directive @d on FIELD", "schema { query: Q }")] + \
                  ["type A { x: Int } query { a } type B query { b } fragment F on A { x } query { c }", "query { a } type A", "type A query { a: b } query { c }"]
# names that are proper substrings / prefixes of the reserved words (valid wherever the reserved word is not)
HAND_DOCUMENTS += ["{ ...%s } fragment %s on %s { %s }" % (n, n, n, n) for n in ("o", "n", "onn", "oon", "On")] + \
                  ["enum E { %s }" % n for n in ("t", "tru", "truee", "f", "nul", "nulll", "True", "NULL", "u", "e")] + \
                  ["{ f(x: %s) }" % n for n in ("tru", "nul", "fals", "t", "n", "On")]
HAND_DOCUMENTS += [t.replace("%s", "@d(a: %s)" % v).replace("%v", v) for t in _CONST_SITES for v in _CONST_VALUES]
# ... and where the value is not in the FIRST argument of its directive, nor in the first directive of its list (constness must reach every member of a repetition)
HAND_DOCUMENTS += [t.replace("%s", "@d(z: 1, a: %s)" % v).replace("%v", v) for t in _CONST_SITES if "%s" in t for v in ("2", "$v", "[1, $v]")]
HAND_DOCUMENTS += [t.replace("%s", "@c(q: 2) @d(a: %s, b: %s)" % (v, v)).replace("%v", v) for t in _CONST_SITES if "%s" in t for v in ("2", "$v")]


def pipeline_corpus(tier, seed):
    import random
    from . import gen_docs as GD
    rnd = random.Random(seed)
    out, seen = [], set()

    def add(entry, text):
        if (entry, text) not in seen:
            seen.add((entry, text))
            out.append((entry, text))
    fillers = GD.FILLERS if tier == "thorough" else GD.FILLERS[:4]
    for efv in (False, True):
        for entry, toks in GD.corpus(tier, seed, efv):
            add(entry, GD.render(toks))
            add(entry, GD.render(toks, tight=True))
            add(entry, GD.render(toks, fillers[rnd.randrange(len(fillers))]))
            add(entry, "﻿" + GD.render(toks, " ,") + " # end")
            eds = list(GD.edits(toks, rnd, GD.EDIT_POOL))
            if tier != "thorough" and len(eds) > 24:
                eds = rnd.sample(eds, 24)
            for ed in eds:
                add(entry, GD.render(ed))
    # hand-written documents for corners the derivation enumerator's naming scheme does not produce (equal alias and name, descriptions on
    # every describable member, keyword-like names, every directive location)
    for text in HAND_DOCUMENTS:
        add("document", text)
        add("document", text.replace(" ", "  ").replace("{", "{\n"))
    # short raw strings: every string over the alphabets (lexical/syntactic boundary cases)
    for s in strings(ALPHABET, 2):
        for entry in ("document", "value", "type"):
            add(entry, s)
    for s in strings(SMALL_ALPHABET, 3 if tier != "thorough" else 4):
        add("value", s)
        add("document", s)
    return out


def pipeline_check(tier, seed, jobs=16):
    items = pipeline_corpus(tier, seed)
    size = max(1, len(items) // (jobs * 6))
    chunks = [(items[i:i + size], tier) for i in range(0, len(items), size)]
    total = accepted = 0
    fails = []
    ctx = mp.get_context("fork")
    with ctx.Pool(jobs) as pool:
        for n, acc, f in pool.imap_unordered(_pipeline_chunk, chunks):
            total += n
            accepted += acc
            fails += f
    return len(items), total, accepted, fails


def recursion_probe():
    """single named case of the property: nesting deeper than the interpreter's recursion budget"""
    from py_gql.lang import parser as P
    from py_gql.exc import GraphQLSyntaxError
    out = {}
    for name, text, entry in (("list-value", "[" * 5000 + "]" * 5000, "value"), ("selection-set", "{a" * 5000 + "}" * 5000, "document"),
                              ("list-type", "[" * 5000 + "T" + "]" * 5000, "type")):
        try:
            _entry_call(entry)(text)
            out[name] = "accepted"
        except GraphQLSyntaxError:
            out[name] = "GraphQLSyntaxError"
        except RecursionError:
            out[name] = "RecursionError"
        except Exception as e:
            out[name] = type(e).__name__
    return out


def render_check(tier):
    """GraphQLSyntaxError(message, position, text) renders for every position inside the text:
    all texts over a line-structure alphabet x every position 0..len (exhaustive to the bound)."""
    from py_gql.exc import GraphQLSyntaxError, UnexpectedEOF
    from py_gql._string_utils import index_to_loc
    alpha = ["a", "\n", "\r", "\u2028", " "]
    n = 0
    fails = []
    for text in strings(alpha, 6 if tier == "thorough" else 5):
        for pos in range(len(text) + 1):
            n += 1
            try:
                e = GraphQLSyntaxError("m", pos, text)
                msg, d = str(e), e.to_dict()
                line, col = index_to_loc(text, pos)
                ok = isinstance(msg, str) and isinstance(d.get("message"), str) and line >= 1 and col >= 1 \
                    and line == 1 + text[:pos].count("\n") and col == pos - (text.rfind("\n", 0, pos) + 1) + 1
                if not ok:
                    fails.append(("GraphQLSyntaxError:renderable", {"text": text, "position": pos}, "rendering gives %r / %r / %r" % (msg, d, (line, col))))
            except Exception as ex:
                fails.append(("GraphQLSyntaxError:renderable", {"text": text, "position": pos, "render_error": type(ex).__name__},
                              "rendering a syntax error at position %d of %r raised %r" % (pos, text, ex)))
    return n, fails


# -------------------------------------------------------------------------------------------
# C02: tree mirrors the source (bounded, over accepted corpus texts)

def _tree_chunk(items):
    from . import treecheck as TC
    from py_gql.exc import GraphQLSyntaxError
    n = nodes = 0
    fails = []
    for entry, text in items:
        for efv in (False, True):
            flags = {"allow_type_system": True, "experimental_fragment_variables": efv} if entry == "document" else {}
            if entry != "document" and efv:
                continue
            try:
                doc = _entry_call(entry)(text, **flags)
            except GraphQLSyntaxError:
                continue
            n += 1
            for clause, detail in TC.check_tree(text, doc, flags) + TC.check_no_location(text, doc, entry, flags):
                fails.append((clause, {"text": text, "entry": entry, "fragment_variables": efv}, detail))
            if not efv and any(getattr(a_, "source", None) is not None and a_.source != text for _p, a_ in TC.walk(doc)):
                fails.append(("tree:same-tree-for-str-and-bytes", {"text": text, "entry": entry, "submitted_as": "str"},
                              "nodes do not refer back to the submitted text (their `source` is another string): spans index something else than what was submitted"))
            if not efv:
                # spans are offsets into the SUBMITTED text, whichever way it is submitted: str and UTF-8 bytes, with and without a leading byte order mark
                # (which is a character of the text like any other ignored one), give the same tree with the same spans
                for label, sub in (("bytes", text.encode("utf-8")), ("bom+str", "\ufeff" + text), ("bom+bytes", ("\ufeff" + text).encode("utf-8"))):
                    try:
                        other = _entry_call(entry)(sub, **flags)
                    except Exception as e:
                        fails.append(("tree:same-tree-for-str-and-bytes", {"text": text, "entry": entry, "submitted_as": label}, "%s route raised %r" % (label, e)))
                        continue
                    if any(getattr(a_, "source", None) is not None and a_.source != (text if label == "bytes" else "\ufeff" + text) for _p, a_ in TC.walk(other)):
                        fails.append(("tree:same-tree-for-str-and-bytes", {"text": text, "entry": entry, "submitted_as": label},
                                      "nodes of the %s route do not refer back to the submitted text as a str (their `source` differs from it)" % label))
                    want = doc if label == "bytes" else None
                    if label.startswith("bom"):
                        ref = _entry_call(entry)("\ufeff" + text, **flags) if label == "bom+bytes" else None
                        if label == "bom+str":
                            # every span of the BOM-prefixed text is the span of the plain text shifted by one character
                            shifted = [(type(a).__name__, a.loc) for _p, a in TC.walk(other)]
                            plain = [(type(a).__name__, (a.loc[0] + 1, a.loc[1] + 1) if a.loc else None) for _p, a in TC.walk(doc)]
                            root_ok = shifted[1:] == plain[1:]          # (the root's span may or may not include the mark)
                            if not root_ok:
                                fails.append(("tree:same-tree-for-str-and-bytes", {"text": text, "entry": entry, "submitted_as": label},
                                              "spans of the text with a leading byte order mark are not the spans of the plain text shifted by one"))
                            continue
                        want = ref
                    if other != want:
                        fails.append(("tree:same-tree-for-str-and-bytes", {"text": text, "entry": entry, "submitted_as": label},
                                      "submitting the text as %s gives a different tree (or different spans) than submitting it as str" % label))
            nodes += sum(1 for _ in TC.walk(doc))
            if not efv and n % 7 == 0:
                # every call builds its own tree: two parses of one text share no node (a caller may edit the tree it was given; the next caller gets the text's tree)
                again = _entry_call(entry)(text, **flags)
                mine = {id(a_) for _p, a_ in TC.walk(doc)}
                shared = [type(a_).__name__ for _p, a_ in TC.walk(again) if id(a_) in mine]
                if shared or again is doc:
                    fails.append(("tree:fresh-for-every-call", {"text": text, "entry": entry}, "two calls on the same text return trees sharing %d node objects (%s): an edit of one caller's tree "
                                  "shows up in what the next caller is given" % (len(shared), ", ".join(shared[:3]))))
            if not efv:
                # the tree is a function of the token sequence: re-spelling what lies BETWEEN the tokens (blanks, commas, comments ended by LF, CR or CRLF, byte order
                # marks) changes the spans only.  One spelling per text, in rotation over the corpus.
                toks = SR.tokens(text)
                if toks and len(toks) > 2:
                    filler = RESPELLINGS[(n + len(text)) % len(RESPELLINGS)]
                    text2 = filler.join(text[a:b] for _k, a, b in toks[:-1])
                    f0 = dict(flags, no_location=True)
                    try:
                        ref, other = _entry_call(entry)(text, **f0), _entry_call(entry)(text2, **f0)
                        same = ref == other
                    except Exception as e:
                        same, other = False, e
                    if not same:
                        fails.append(("tree:independent-of-ignored-tokens", {"text": text, "respelled": text2, "entry": entry},
                                      "the same tokens separated by %r instead give %s" % (filler, ("%r" % (other,))[:160] if isinstance(other, Exception) else "a different tree")))
    return n, nodes, fails


RESPELLINGS = [" # c\r", "\r", " #\r\n", ",", "\ufeff", " # \u00e9 \U0001F600 c\n", "\t", "\n\n", " # c\r# d\r"]


def tree_check(tier, seed, jobs=16):
    items = [(e, t) for e, t in pipeline_corpus(tier, seed)]
    size = max(1, len(items) // (jobs * 6))
    chunks = [items[i:i + size] for i in range(0, len(items), size)]
    total = nodes = 0
    fails = []
    ctx = mp.get_context("fork")
    with ctx.Pool(jobs) as pool:
        for n, nn, f in pool.imap_unordered(_tree_chunk, chunks):
            total += n
            nodes += nn
            fails += f
    return total, nodes, fails


# -------------------------------------------------------------------------------------------
# C02: parse_block_string(raw) == BlockStringValue(raw)

BLOCK_ALPHABET = ["a", " ", "\t", "\n", "\r", "\u00a0", "\u0085", "\u2028", '"', "\\"]
BLOCK_LINES = ["", "a", " a", "  a", "\ta", " ", "  ", "a ", "\u00a0a", "\u00a0", "\u2028 \u0085 b", '"', "\\"]
BLOCK_SEPS = ["\n", "\r", "\r\n"]


def _block_chunk(raws):
    from py_gql._string_utils import parse_block_string
    fails = []
    for raw in raws:
        try:
            got = parse_block_string(raw)
        except Exception as e:
            fails.append(("parse_block_string:ensures:block-string-value", {"raw": raw}, "raised %r" % (e,)))
            continue
        want = SB.block_string_value(raw)
        if got != want:
            fails.append(("parse_block_string:ensures:block-string-value", {"raw": raw},
                          "parse_block_string(%r) == %r but BlockStringValue gives %r" % (raw, got, want)))
    return len(raws), fails


def block_string_check(tier, jobs=16):
    raws = list(strings(BLOCK_ALPHABET, 6 if tier == "thorough" else 5))
    for k in (2, 3, 4) if tier != "thorough" else (2, 3, 4, 5):
        for lines in itertools.product(BLOCK_LINES, repeat=k):
            for sep in BLOCK_SEPS:
                raws.append(sep.join(lines))
            if k == 3:
                raws.append(lines[0] + "\n" + lines[1] + "\r" + lines[2])
    raws = list(dict.fromkeys(raws))
    size = max(1, len(raws) // (jobs * 4))
    chunks = [raws[i:i + size] for i in range(0, len(raws), size)]
    total, fails = 0, []
    ctx = mp.get_context("fork")
    with ctx.Pool(jobs) as pool:
        for n, f in pool.imap_unordered(_block_chunk, chunks):
            total += n
            fails += f
    return total, fails


# -------------------------------------------------------------------------------------------
# C03: print o parse round trip (bounded)

PAYLOAD_ALPHABET = ["a", " ", "\t", "\n", '"', "\\", "\U0001F600", "\u00a0", "\u00e9", "\r", "\u0001", "\u000b", "\u001f", "\u007f", "\u0008", "\u000c"]
INDENTS = [0, 1, 2, 4, "\t"]


def quote(payload):
    """GraphQL quoted-string source text for an arbitrary payload (specification-level encoder)"""
    out = []
    for ch in payload:
        if ch == '"' or ch == "\\":
            out.append("\\" + ch)
        elif ord(ch) < 0x20 and ch != "\t" or ch in "\n\r":
            out.append("\\u%04x" % ord(ch))
        else:
            out.append(ch)
    return '"' + "".join(out) + '"'


def block_quote(payload):
    if any(ord(c) < 0x20 and c not in "\t\n\r" for c in payload):
        return None
    return '"""' + payload.replace('"""', '\\"""') + '"""'


STRING_TEMPLATES = [("document", '{ f(x: %s) }'), ("document", '%s scalar S'), ("document", 'type T { %s f(%s a: Int = 1): Int }'),
                    ("document", 'enum E { %s A }'), ("document", 'query ($v: String = %s @d(r: %s)) { f }'),
                    ("document", 'input I { %s a: String = %s }'), ("value", '[%s, {k: %s}]'), ("document", '%s directive @d(%s a: Int) on FIELD')]


def roundtrip_corpus(tier, seed):
    out, seen = [], set()

    def add(entry, text):
        if (entry, text) not in seen:
            seen.add((entry, text))
            out.append((entry, text))
    from . import gen_docs as GD
    for efv in (False, True):
        for entry, toks in GD.corpus(tier, seed, efv):
            add(entry, GD.render(toks))
    for t in HAND_DOCUMENTS:
        add("document", t)
    payloads = list(strings(PAYLOAD_ALPHABET, 3 if tier == "thorough" else 2)) + \
        ["a\\", " a\\", 'a"', ' a"', '"""', 'a"""b', "\\\"\"\"", " \n a\n  b", "a\n\n b\n", "  a\n b", "\ta", "a\\\n", " \\", "\"", "\n", " "]
    # line-structured payloads: every composition of 2..3 lines (empty, whitespace-only of several widths, indented, trailing blank) -
    # what block-string indentation handling in the printer has to survive
    lines = ["a", " a", "   a", "", " ", "    ", "\t", "a "]
    for k in (2, 3):
        for combo in itertools.product(lines, repeat=k):
            payloads.append("\n".join(combo))
    # runs of more than three quotes inside a value: the escaped triple quote of the printed form is then followed / preceded by plain quotes
    for k in (4, 5, 6, 7):
        for pre, post in (("a", "b"), ("", "b"), ("a ", " b"), ("a\n", "\nb")):
            payloads.append(pre + '"' * k + post)
    payloads += ['a"b""c"""d""""e', 'x\\"""y', '""" """ a']
    # the same runs spelled the other way round in the source: plain quotes first, the escaped triple quote last
    for src in ['"""say "\\"""hello"""', '"""a""\\"""b"""', '"""\\"""\\"""x"""', '"""a "\\""" b"""']:
        for entry, tpl in STRING_TEMPLATES:
            add(entry, tpl.replace("%s", src))
    for p in dict.fromkeys(payloads):
        forms = [quote(p), block_quote(p)]
        for f in forms:
            if f is None:
                continue
            for entry, tpl in STRING_TEMPLATES:
                add(entry, tpl.replace("%s", f))
    return out


def _roundtrip_chunk(items):
    from py_gql.exc import GraphQLSyntaxError
    from py_gql.lang.printer import print_ast
    from . import treecheck as TC
    n = 0
    fails = []
    for entry, text in items:
        call = _entry_call(entry)
        for efv in ((False, True) if entry == "document" else (False,)):
            flags = {"allow_type_system": True, "experimental_fragment_variables": efv} if entry == "document" else {}
            try:
                t1 = call(text, no_location=True, **flags)
            except GraphQLSyntaxError:
                continue
            n += 1
            for indent in INDENTS:
                w = {"text": text, "entry": entry, "indent": indent, "fragment_variables": efv}
                try:
                    p1 = print_ast(t1, indent=indent)
                    p1b = print_ast(t1, indent=indent)
                except Exception as e:
                    fails.append(("print_ast:never-raises", dict(w, exc=type(e).__name__), "printing the parsed tree raised %r" % (e,)))
                    continue
                if p1 != p1b:
                    fails.append(("print_ast:deterministic", w, "two calls printed different text"))
                try:
                    t2 = call(p1, no_location=True, **flags)
                except GraphQLSyntaxError as e:
                    fails.append(("print_ast:output-parses", dict(w, printed=p1), "printed text %r is rejected by the parser: %s" % (p1[:80], type(e).__name__)))
                    continue
                if t2 != t1:
                    d1, d2 = TC.strip(t1.to_dict()), TC.strip(t2.to_dict())
                    diff = _first_diff(d1, d2)
                    fails.append(("print_ast:roundtrip-equal", dict(w, printed=p1, diff=diff),
                                  "parse(print(tree)) differs from tree at %s" % (diff,)))
                    if _is_member_description(diff):
                        # look past the (separately reported) dropped member descriptions
                        diff2 = _first_diff(_drop_member_descriptions(d1), _drop_member_descriptions(d2))
                        if diff2:
                            fails.append(("print_ast:roundtrip-equal", dict(w, printed=p1, diff=diff2),
                                          "parse(print(tree)) differs from tree at %s" % (diff2,)))
                    continue
                p2 = print_ast(t2, indent=indent)
                if p2 != p1:
                    fails.append(("print_ast:fixpoint", dict(w, printed=p1), "printing the re-parsed tree gives different text"))
    return n, fails


MEMBER_KINDS = ("FieldDefinition", "InputValueDefinition", "EnumValueDefinition")


def _is_member_description(diff):
    import re
    return bool(diff) and re.search(r"\.(fields|arguments|values)\[\d+\]\.description: \{.*\} vs None$", diff) is not None


def _drop_member_descriptions(d):
    if isinstance(d, dict):
        return {k: (None if k == "description" and d.get("__kind__") in MEMBER_KINDS else _drop_member_descriptions(v))
                for k, v in d.items()}
    if isinstance(d, list):
        return [_drop_member_descriptions(x) for x in d]
    return d


def _first_diff(a, b, path=""):
    if type(a) is not type(b):
        return "%s: %r vs %r" % (path, a, b)
    if isinstance(a, dict):
        for k in a:
            if k not in b:
                return "%s.%s missing" % (path, k)
            d = _first_diff(a[k], b[k], path + "." + k)
            if d:
                return d
        return None
    if isinstance(a, list):
        if len(a) != len(b):
            return "%s: %d vs %d items" % (path, len(a), len(b))
        for i, (x, y) in enumerate(zip(a, b)):
            d = _first_diff(x, y, "%s[%d]" % (path, i))
            if d:
                return d
        return None
    return None if a == b else "%s: %r vs %r" % (path, a, b)


def roundtrip_check(tier, seed, jobs=16):
    items = roundtrip_corpus(tier, seed)
    size = max(1, len(items) // (jobs * 6))
    chunks = [items[i:i + size] for i in range(0, len(items), size)]
    total, fails = 0, []
    ctx = mp.get_context("fork")
    with ctx.Pool(jobs) as pool:
        for n, f in pool.imap_unordered(_roundtrip_chunk, chunks):
            total += n
            fails += f
    return len(items), total, fails


# -------------------------------------------------------------------------------------------
# C18: visitor contracts (bounded)

def _visitor_chunk(args):
    items, edit_budget = args
    from . import visitcheck as VC
    from py_gql.exc import GraphQLSyntaxError
    from py_gql.lang import parser as P
    n = nodes = edits = 0
    fails = []
    for text in items:
        parse = lambda t: P.parse(t, allow_type_system=True, experimental_fragment_variables=True)
        try:
            doc = parse(text)
        except GraphQLSyntaxError:
            continue
        n += 1
        f, k = VC.check_trace(doc)
        nodes += k
        for clause, w, detail in f:
            fails.append((clause, dict(w, text=text), detail))
        if edits < edit_budget:
            f2, ne = VC.check_edits(text, parse)
            edits += ne
            fails += f2
            fails += VC.check_chain(text, parse)
        fails += VC.check_transforms(text, parse)
        if n <= 40 or text in VISITOR_DOCUMENTS:
            fails += VC.check_cross_kind(text, parse)
        if text in EQUAL_SIBLING_DOCUMENTS:
            # without locations structurally equal siblings compare equal: an edit must still hit the node it was made at, not its first equal sibling
            noloc = lambda t: P.parse(t, allow_type_system=True, experimental_fragment_variables=True, no_location=True)      # noqa: E731
            f3, ne3 = VC.check_edits(text, noloc)
            edits += ne3
            fails += [(c, dict(w, no_location=True), d) for c, w, d in f3]
    return n, nodes, edits, fails


EQUAL_SIBLING_DOCUMENTS = [
    "{ id name id }",
    "{ f(x: [1, 2, 1], y: {a: 1, b: 2, a: 1}) @tag @other @tag { a a } f { a } }",
    "query ($a: Int, $b: Int, $a: Int) { ...F x ...F } fragment F on T { a } fragment G on T { a } fragment F on T { a }",
    "type T { a: Int b: Int a: Int } enum E { A B A } union U = A | B | A",
]
VISITOR_DOCUMENTS = EQUAL_SIBLING_DOCUMENTS + [
    "{ _ a { __ foo_barBaz: foo_barBaz _x_ x__y } foo: _(x: 1) { bar } }",
    "{ x: a @skip(if: true) b y: someField(snake_arg: 1) @include(if: false) { z: inner_field @d(a: [1]) innerField } }",
    "query ($v: Boolean!) { ... on T @d { x: a @skip(if: $v) { y: b @include(if: $v) } } ...F } fragment F on T { fooBar: foo_bar @d fooBar2: fooBar }",
    "mutation { do_it: doIt(input_value: {snake_key: 1}) @d { __typename resultCode: result_code @d } }",
]


def visitor_check(tier, seed, jobs=16):
    texts = [t for e, t in roundtrip_corpus(tier, seed) if e == "document"]
    # hand-written documents first (aliases with arguments and directives, descriptions on every member, keyword-like names, camelCase / snake_case names)
    texts = [t for t in HAND_DOCUMENTS if "%" not in t and "$v]" not in t][:14] + VISITOR_DOCUMENTS + texts
    texts = list(dict.fromkeys(texts))
    size = max(1, len(texts) // (jobs * 4))
    budget = 4000 if tier == "thorough" else 1200
    chunks = [(texts[i:i + size], budget) for i in range(0, len(texts), size)]
    total = nodes = edits = 0
    fails = []
    ctx = mp.get_context("fork")
    with ctx.Pool(jobs) as pool:
        for n, nn, ne, f in pool.imap_unordered(_visitor_chunk, chunks):
            total += n
            nodes += nn
            edits += ne
            fails += f
    return total, nodes, edits, fails


# ----------------------------------------------------------------------------------------------------------------------
# token-stream primitives of the parser against the abstract stream Engine B assumes (bounded)

def stream_primitives_check(tier):
    """every sequence of <= 4 (quick) / 5 (thorough) primitive operations on every token text of a small family: the real Parser's
    peek / advance / expect / expect_keyword / skip agree with a list-based model of the token stream (value returned, exception class and
    position, tokens left), and `_last` is the token consumed last.  peek(2) with EOF next is excluded: Engine B proves (P7) that no
    parse method does that (the real _advance_window would not return)."""
    import itertools
    from py_gql.exc import GraphQLSyntaxError, UnexpectedEOF, UnexpectedToken
    from py_gql.lang.lexer import Lexer
    from py_gql.lang.parser import Parser
    from py_gql.lang.token import EOF, CurlyOpen, Name
    texts = ["", "a", "{", "a {", "{ a", "a b", '"s" a', "a { b", "1 a {"]
    ops = [("peek", 1), ("peek", 2), ("advance",), ("skip", Name), ("skip", CurlyOpen), ("expect", Name), ("expect", CurlyOpen), ("expect_keyword", "a")]
    depth = 5 if tier == "thorough" else 4
    n = 0
    fails = []
    for text in texts:
        toks = list(Lexer(text))
        for seq in itertools.product(range(len(ops)), repeat=depth):
            p = Parser(text)
            i = 0
            last = None
            for k in seq:
                op = ops[k]
                # model
                if op[0] == "peek":
                    if op[1] == 2 and (i >= len(toks) or toks[i].__class__ is EOF):
                        break                      # excluded case, see docstring
                    want = ("val", toks[i + op[1] - 1]) if i + op[1] - 1 < len(toks) else ("exc", UnexpectedEOF, len(text))
                elif op[0] == "advance":
                    if i < len(toks):
                        want, last, i = ("val", toks[i]), toks[i], i + 1
                    else:
                        want = ("exc", UnexpectedEOF, len(text))
                else:
                    if i >= len(toks):
                        want = ("exc", UnexpectedEOF, len(text))
                    else:
                        t = toks[i]
                        hit = (t.__class__ is op[1]) if op[0] in ("skip", "expect") else (t.__class__ is Name and t.value == op[1])
                        if hit:
                            want, last, i = (("val", True) if op[0] == "skip" else ("val", t)), t, i + 1
                        elif op[0] == "skip":
                            want = ("val", False)
                        else:
                            want = ("exc", UnexpectedToken, t.start)
                # real
                try:
                    got = ("val", getattr(p, op[0])(*op[1:]))
                except GraphQLSyntaxError as e:
                    got = ("exc", type(e), e.position)
                except Exception as e:   # noqa
                    got = ("crash", repr(e), None)
                n += 1
                if got != want or (last is not None and getattr(p, "_last", None) != last):
                    fails.append(("Parser.stream-primitives", {"text": text, "ops": [repr(ops[j]) for j in seq], "at": repr(op), "got": repr(got), "want": repr(want)},
                                  "on %r the primitive %r returned %r, the abstract token stream says %r" % (text, op, got, want)))
                    break
                if want[0] == "exc":
                    break
    seen = set()
    uniq = []
    for f in fails:
        key = (f[1]["text"], f[1]["at"], f[1]["got"])
        if key not in seen:
            seen.add(key)
            uniq.append(f)
    return n, uniq[:5]
