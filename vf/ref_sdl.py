"""S6: declarative reading of a type-system document and structural description of Schema objects.

describe_sdl(text)   what a type-system document *declares* (types, members in document order with every
                     extension merged into its target in document order, wrappers, defaults as literals,
                     descriptions, deprecations, directive definitions, root operation types), read from
                     the parsed AST with a few comprehensions - no builder, no caches, no thunks.
describe(schema)     the same shape read off a py_gql Schema object.
closed(schema)       every type reachable through fields, arguments, input fields, interfaces, union
                     members and roots IS the object registered under its name.
snapshot(schema)     deep, identity-free rendering used for "source unchanged" comparisons.
"""
from py_gql.lang import ast as A
from py_gql.lang import print_ast
from py_gql.schema import (EnumType, InputObjectType, InterfaceType, ListType, NonNullType, ObjectType, ScalarType, UnionType)

SPECIFIED = {"Int", "Float", "String", "Boolean", "ID"}


def type_str(t):
    if isinstance(t, NonNullType):
        return type_str(t.type) + "!"
    if isinstance(t, ListType):
        return "[" + type_str(t.type) + "]"
    return t.name


def ast_type_str(n):
    if isinstance(n, A.NonNullType):
        return ast_type_str(n.type) + "!"
    if isinstance(n, A.ListType):
        return "[" + ast_type_str(n.type) + "]"
    return n.name.value


def _desc(node):
    d = getattr(node, "description", None)
    return d.value if d is not None else None


def _deprecation(node):
    for d in node.directives:
        if d.name.value == "deprecated":
            for a in d.arguments:
                if a.name.value == "reason":
                    return a.value.value if not isinstance(a.value, A.NullValue) else None
            return "No longer supported"
    return None


def _args_sdl(nodes):
    return [{"name": a.name.value, "type": ast_type_str(a.type), "description": _desc(a),
             "default": ("literal", a.default_value) if a.default_value is not None else None} for a in nodes]


def _fields_sdl(nodes):
    return [{"name": f.name.value, "type": ast_type_str(f.type), "description": _desc(f), "deprecation": _deprecation(f),
             "args": _args_sdl(f.arguments)} for f in nodes]


KINDS = {A.ScalarTypeDefinition: "scalar", A.ObjectTypeDefinition: "object", A.InterfaceTypeDefinition: "interface",
         A.UnionTypeDefinition: "union", A.EnumTypeDefinition: "enum", A.InputObjectTypeDefinition: "input"}
EXT_KINDS = {A.ScalarTypeExtension: "scalar", A.ObjectTypeExtension: "object", A.InterfaceTypeExtension: "interface",
             A.UnionTypeExtension: "union", A.EnumTypeExtension: "enum", A.InputObjectTypeExtension: "input"}


def describe_sdl(doc, ignore_extensions=False):
    if isinstance(doc, str):
        from py_gql.lang import parse
        doc = parse(doc, allow_type_system=True)
    types = {}
    for d in doc.definitions:
        k = KINDS.get(type(d))
        if k:
            types[d.name.value] = _type_entry(k, d, _desc(d))
    if not ignore_extensions:
        for d in doc.definitions:
            k = EXT_KINDS.get(type(d))
            if k and d.name.value in types and types[d.name.value]["kind"] == k:
                ext = _type_entry(k, d, None)
                tgt = types[d.name.value]
                for key in ("fields", "interfaces", "members", "values", "input_fields"):
                    if key in ext:
                        tgt[key] = tgt.get(key, []) + ext[key]
    directives = {d.name.value: {"description": _desc(d), "locations": [loc.value for loc in d.locations], "args": _args_sdl(d.arguments)}
                  for d in doc.definitions if isinstance(d, A.DirectiveDefinition)}
    roots = {}
    sdefs = [d for d in doc.definitions if isinstance(d, A.SchemaDefinition)]
    if sdefs:
        for ot in sdefs[0].operation_types:
            roots[ot.operation] = ot.type.name.value
    else:
        for op, name in (("query", "Query"), ("mutation", "Mutation"), ("subscription", "Subscription")):
            if name in types and types[name]["kind"] == "object":
                roots[op] = name
    if not ignore_extensions:
        for d in doc.definitions:
            if isinstance(d, A.SchemaExtension):
                for ot in d.operation_types:
                    roots[ot.operation] = ot.type.name.value
    return {"types": types, "directives": directives, "roots": roots}


def _type_entry(kind, d, desc):
    e = {"kind": kind, "description": desc}
    if kind in ("object", "interface"):
        e["fields"] = _fields_sdl(d.fields)
    if kind == "object":
        e["interfaces"] = [i.name.value for i in d.interfaces]
    if kind == "union":
        e["members"] = [t.name.value for t in d.types]
    if kind == "enum":
        e["values"] = [{"name": v.name.value, "description": _desc(v), "deprecation": _deprecation(v)} for v in d.values]
    if kind == "input":
        e["input_fields"] = _args_sdl(d.fields)
    return e


def _args_schema(args):
    return [{"name": a.name, "type": type_str(a.type), "description": a.description,
             "default": ("value", a.default_value) if a.has_default_value else None} for a in args]


def describe(schema, include_specified=False):
    types = {}
    for name, t in schema.types.items():
        if name.startswith("__") or (name in SPECIFIED and not include_specified):
            continue
        if isinstance(t, ScalarType):
            e = {"kind": "scalar", "description": t.description}
        elif isinstance(t, ObjectType):
            e = {"kind": "object", "description": t.description, "fields": _fields_schema(t.fields), "interfaces": [i.name for i in t.interfaces]}
        elif isinstance(t, InterfaceType):
            e = {"kind": "interface", "description": t.description, "fields": _fields_schema(t.fields)}
        elif isinstance(t, UnionType):
            e = {"kind": "union", "description": t.description, "members": [m.name for m in t.types]}
        elif isinstance(t, EnumType):
            e = {"kind": "enum", "description": t.description,
                 "values": [{"name": v.name, "description": v.description, "deprecation": v.deprecation_reason if v.deprecated else None} for v in t.values]}
        elif isinstance(t, InputObjectType):
            e = {"kind": "input", "description": t.description, "input_fields": _args_schema(t.fields)}
        else:
            e = {"kind": type(t).__name__}
        types[name] = e
    directives = {n: {"description": d.description, "locations": list(d.locations), "args": _args_schema(d.arguments)}
                  for n, d in schema.directives.items() if n not in ("skip", "include", "deprecated")}
    roots = {}
    for op, t in (("query", schema.query_type), ("mutation", schema.mutation_type), ("subscription", schema.subscription_type)):
        if t is not None:
            roots[op] = t.name
    return {"types": types, "directives": directives, "roots": roots}


def _fields_schema(fields):
    return [{"name": f.name, "type": type_str(f.type), "description": f.description,
             "deprecation": f.deprecation_reason if f.deprecated else None, "args": _args_schema(f.arguments)} for f in fields]


def compare(sdl_desc, schema_desc, schema):
    """first difference between what the SDL declares and what the schema contains, or None"""
    from . import ref_coerce as RC

    def default_eq(a, b, type_text):
        if a is None or b is None:
            return a is None and b is None
        # a = ("literal", ast node), b = ("value", python value): coerce the literal at the declared type
        from py_gql.lang import parse_type
        t = schema.get_type_from_literal(parse_type(type_text))
        try:
            want = RC.coerce_literal(a[1], t, {})
        except RC.Reject as e:
            return "sdl default %s does not coerce: %s" % (print_ast(a[1]), e)
        return True if (want == b[1] and _types(want) == _types(b[1])) else "declared default %s coerces to %r, schema has %r" % (print_ast(a[1]), want, b[1])

    def args_diff(where, sa, sb):
        if [x["name"] for x in sa] != [x["name"] for x in sb]:
            return "%s: arguments / input fields %r vs %r" % (where, [x["name"] for x in sa], [x["name"] for x in sb])
        for x, y in zip(sa, sb):
            for key in ("type", "description"):
                if x[key] != y[key]:
                    return "%s.%s: %s %r vs %r" % (where, x["name"], key, x[key], y[key])
            r = default_eq(x["default"], y["default"], x["type"])
            if r is not True:
                return "%s.%s: default: %s" % (where, x["name"], r if isinstance(r, str) else "%r vs %r" % (x["default"], y["default"]))
        return None

    if set(sdl_desc["types"]) != set(schema_desc["types"]):
        return "type names: declared %r, schema %r" % (sorted(set(sdl_desc["types"]) - set(schema_desc["types"])),
                                                        sorted(set(schema_desc["types"]) - set(sdl_desc["types"])))
    for name, a in sdl_desc["types"].items():
        b = schema_desc["types"][name]
        for key in ("kind", "description", "interfaces", "members"):
            if a.get(key) != b.get(key):
                return "type %s: %s declared %r, schema %r" % (name, key, a.get(key), b.get(key))
        if "values" in a:
            if a["values"] != b.get("values"):
                return "enum %s: values declared %r, schema %r" % (name, a["values"], b.get("values"))
        if "fields" in a:
            fa, fb = a["fields"], b.get("fields", [])
            if [f["name"] for f in fa] != [f["name"] for f in fb]:
                return "type %s: fields declared %r, schema %r" % (name, [f["name"] for f in fa], [f["name"] for f in fb])
            for x, y in zip(fa, fb):
                for key in ("type", "description", "deprecation"):
                    if x[key] != y[key]:
                        return "%s.%s: %s declared %r, schema %r" % (name, x["name"], key, x[key], y[key])
                d = args_diff("%s.%s" % (name, x["name"]), x["args"], y["args"])
                if d:
                    return d
        if "input_fields" in a:
            d = args_diff(name, a["input_fields"], b.get("input_fields", []))
            if d:
                return d
    if set(sdl_desc["directives"]) != set(schema_desc["directives"]):
        return "directive names: declared %r, schema %r" % (sorted(sdl_desc["directives"]), sorted(schema_desc["directives"]))
    for name, a in sdl_desc["directives"].items():
        b = schema_desc["directives"][name]
        if a["locations"] != b["locations"] or a["description"] != b["description"]:
            return "directive @%s: declared %r, schema %r" % (name, (a["locations"], a["description"]), (b["locations"], b["description"]))
        d = args_diff("@" + name, a["args"], b["args"])
        if d:
            return d
    if sdl_desc["roots"] != schema_desc["roots"]:
        return "root operation types: declared %r, schema %r" % (sdl_desc["roots"], schema_desc["roots"])
    return None


def _types(v):
    if isinstance(v, dict):
        return {k: _types(x) for k, x in v.items()}
    if isinstance(v, list):
        return [_types(x) for x in v]
    return type(v).__name__


def named(t):
    while isinstance(t, (ListType, NonNullType)):
        t = t.type
    return t


def closed(schema):
    """list of references that are not the registered object of that name"""
    bad = []

    def chk(where, t):
        n = named(t)
        reg = schema.types.get(n.name)
        if reg is not n:
            bad.append("%s -> %s (%s)" % (where, n.name, "not registered" if reg is None else "a different object than the registered type"))
    for name, t in schema.types.items():
        if name.startswith("__"):
            continue
        if isinstance(t, (ObjectType, InterfaceType)):
            for f in t.fields:
                chk("%s.%s" % (name, f.name), f.type)
                for a in f.arguments:
                    chk("%s.%s(%s:)" % (name, f.name, a.name), a.type)
        if isinstance(t, ObjectType):
            for i in t.interfaces:
                chk("%s implements" % name, i)
        if isinstance(t, UnionType):
            for m in t.types:
                chk("union %s member" % name, m)
        if isinstance(t, InputObjectType):
            for f in t.fields:
                chk("%s.%s" % (name, f.name), f.type)
    for d in schema.directives.values():
        for a in d.arguments:
            chk("@%s(%s:)" % (d.name, a.name), a.type)
    for op, t in (("query", schema.query_type), ("mutation", schema.mutation_type), ("subscription", schema.subscription_type)):
        if t is not None:
            chk("root %s" % op, t)
    # the by-name views every element offers next to its member list (field_map, argument_map, the enum's name / value lookups) show exactly the members:
    # a view left over from before an operation keeps removed members reachable and hands out the source's objects
    def view(where, mapping, members):
        try:
            ok = list(mapping.keys()) == [m.name for m in members] and all(mapping[m.name] is m for m in members)
        except Exception as e:
            ok = False
            where = "%s (%r)" % (where, e)
        if not ok:
            bad.append("%s lists %s, the members are %s%s" % (where, sorted(mapping) if hasattr(mapping, "keys") else mapping, sorted(m.name for m in members),
                                                              "" if sorted(getattr(mapping, "keys", list)()) != sorted(m.name for m in members) else " (other objects)"))
    for name, t in schema.types.items():
        if name.startswith("__"):
            continue
        if isinstance(t, (ObjectType, InterfaceType, InputObjectType)) and hasattr(t, "field_map"):
            view("%s.field_map" % name, t.field_map, list(t.fields))
        if isinstance(t, (ObjectType, InterfaceType)):
            for f in t.fields:
                if hasattr(f, "argument_map"):
                    view("%s.%s.argument_map" % (name, f.name), f.argument_map, list(f.arguments))
        if isinstance(t, EnumType):
            for v in t.values:
                try:
                    if t.get_value(v.name) != v.value or t.get_name(v.value) != [w for w in t.values if w.value == v.value][-1].name:
                        bad.append("enum %s: lookups disagree with the member %s" % (name, v.name))
                except Exception as e:
                    bad.append("enum %s: member %s cannot be looked up (%r)" % (name, v.name, e))
    for d in schema.directives.values():
        if hasattr(d, "argument_map"):
            view("@%s.argument_map" % d.name, d.argument_map, list(d.arguments))
    return bad


def snapshot(schema):
    """identity-free deep description including resolvers, python names and type resolvers (by id of the callable)"""
    d = describe(schema, include_specified=False)
    extra = {}
    for name, t in schema.types.items():
        if name.startswith("__") or name in SPECIFIED:
            continue
        extra["%s:class" % name] = type(t).__qualname__          # a RegexType / user subclass stays what it is
        if isinstance(t, ScalarType):
            try:
                extra["%s:behaviour" % name] = (repr(t.serialize("12.34")), repr(t.parse("12.34")))
            except Exception as e:
                extra["%s:behaviour" % name] = type(e).__name__
        if isinstance(t, (ObjectType, InterfaceType)):
            for f in t.fields:
                extra["%s.%s" % (name, f.name)] = (id(getattr(f, "resolver", None)) if getattr(f, "resolver", None) else None,
                                                   id(getattr(f, "subscription_resolver", None)) if getattr(f, "subscription_resolver", None) else None,
                                                   getattr(f, "python_name", None), [(a.name, a.python_name) for a in f.arguments])
        if isinstance(t, ObjectType):
            extra["%s:default_resolver" % name] = id(t.default_resolver) if t.default_resolver else None
        if isinstance(t, (InterfaceType, UnionType)):
            rt = getattr(t, "resolve_type", None)
            extra["%s:resolve_type" % name] = id(rt) if callable(rt) else None
        if isinstance(t, InputObjectType):
            extra["%s:python_names" % name] = [(f.name, f.python_name) for f in t.fields]
        if isinstance(t, EnumType):
            extra["%s:values" % name] = [(v.name, repr(v.value)) for v in t.values]
    d["extra"] = extra
    # state that only the frame condition "the source is left as it was" looks at: the source nodes attached to every element
    frame = {}
    for name, t in schema.types.items():
        if not name.startswith("__") and name not in SPECIFIED:
            frame[name] = [type(n).__name__ for n in (getattr(t, "nodes", None) or []) if n is not None]
    frame["<schema>"] = [type(n).__name__ for n in (getattr(schema, "nodes", None) or []) if n is not None]
    for n_, dd in schema.directives.items():
        frame["@" + n_] = type(getattr(dd, "node", None)).__name__
    d["frame"] = frame
    d["default_resolver"] = id(schema.default_resolver) if getattr(schema, "default_resolver", None) else None
    return d
