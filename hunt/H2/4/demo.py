"""
C04 (root cause in the SDL builder): default values of arguments / input fields
are evaluated against the types as they are BEFORE the extensions of the same
document are applied.  Consequences:

  (a) the default value an argument hands to the resolver lacks the defaults of
      input fields which were added by `extend input`, although the very same
      literal written in a query gets them;
  (b) a default value that uses an enum value or an input field added by an
      extension makes build_schema fail on a valid document.
"""
import json
import sys

from py_gql import build_schema, graphql_blocking

bad = False


def echo(root, ctx, info, **args):
    return json.dumps(args, sort_keys=True)


# ---------------------------------------------------------------- (a)
SPLIT = """
input In { a: Int = 1 }
extend input In { b: Int = 2 }
type Query { f(i: In = {a: 5}): String }
"""
MERGED = """
input In { a: Int = 1, b: Int = 2 }
type Query { f(i: In = {a: 5}): String }
"""
results = {}
for name, sdl in (("with `extend input`", SPLIT), ("same types, no extension", MERGED)):
    schema = build_schema(sdl)
    schema.register_resolver("Query", "f", echo)
    results[name] = graphql_blocking(
        schema, "{ default: f  literal: f(i: {a: 5}) }"
    ).response()
    print("%-26s %s" % (name, json.dumps(results[name])))

split = results["with `extend input`"]["data"]
if split["default"] != split["literal"]:
    bad = True
    print(
        "VIOLATION C04 (a): the argument default `{a: 5}` reaches the resolver as %s "
        "but the same literal in the query as %s (input field default `b: 2` lost)"
        % (split["default"], split["literal"])
    )
if results["with `extend input`"] != results["same types, no extension"]:
    bad = True
    print(
        "VIOLATION C04 (a): equivalent schemas (extension merged by hand) "
        "execute the same operation differently"
    )

# ---------------------------------------------------------------- (b)
for label, sdl in (
    (
        "enum value added by extension",
        """
        enum E { A }
        extend enum E { B }
        type Query { g(e: E = B): String }
        """,
    ),
    (
        "input field added by extension",
        """
        input In { a: Int }
        extend input In { c: Int }
        type Query { g(i: In = {c: 1}): String }
        """,
    ),
):
    try:
        schema = build_schema(sdl)
        schema.register_resolver("Query", "g", echo)
        print(label, "->", graphql_blocking(schema, "{ g }").response())
    except Exception as err:  # noqa
        bad = True
        print(
            "VIOLATION (b) %s: build_schema refuses a valid document: %s: %s"
            % (label, type(err).__name__, err)
        )

sys.exit(1 if bad else 0)
