"""
C04: default type resolution for interfaces / unions reads `__typename__` from
`dict` instances only, whereas default field resolution accepts any
`collections.abc.Mapping`.  A read-only / layered mapping that works as the
value of an object typed field makes the request crash as soon as the field is
of an abstract type.
"""
import collections
import json
import sys
import types

from py_gql import build_schema, graphql_blocking

schema = build_schema(
    """
    interface Node { id: ID }
    type User implements Node { id: ID, name: String }
    union Hit = User
    type Query { user: User, node: Node, hits: [Hit] }
    """
)

record = {"__typename__": "User", "id": 1, "name": "ann"}
VALUES = {
    "dict": record,
    "MappingProxyType": types.MappingProxyType(record),
    "ChainMap": collections.ChainMap({}, record),
    "UserDict": collections.UserDict(record),
}

DOC = "{ user { id name } node { id ... on User { name } } hits { ... on User { name } } }"
expected = {
    "data": {
        "user": {"id": "1", "name": "ann"},
        "node": {"id": "1", "name": "ann"},
        "hits": [{"name": "ann"}],
    }
}

bad = False
for label, value in VALUES.items():
    root = {"user": value, "node": value, "hits": [value]}
    # object typed field alone: every Mapping is fine
    only_object = graphql_blocking(schema, "{ user { id name } }", root=root).response()
    assert only_object == {"data": {"user": {"id": "1", "name": "ann"}}}, only_object
    try:
        observed = json.loads(json.dumps(graphql_blocking(schema, DOC, root=root).response()))
    except Exception as err:  # noqa
        observed = "raised %s: %s" % (type(err).__name__, err)
    print("%-18s %s" % (label, observed))
    if observed != expected:
        bad = True
        print("   VIOLATION C04: expected %s" % json.dumps(expected))

sys.exit(1 if bad else 0)
