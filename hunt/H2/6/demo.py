"""
C10: `raise ResolverError(exc)` - wrapping a caught exception object, the usual
Python idiom - gives a result whose response cannot be produced at all:
GraphQLError.__str__ returns the message object itself, so to_dict() /
response() / json() raise TypeError instead of reporting an error with a
string message.
"""
import json
import sys

from py_gql import build_schema, graphql_blocking
from py_gql.exc import ResolverError

schema = build_schema("type Query { user(id: ID!): String, ok: Int }")

USERS = {}


@schema.resolver("Query.user")
def user(root, ctx, info, id):
    try:
        return USERS[id]
    except KeyError as err:
        raise ResolverError(err)  # message is the KeyError instance


result = graphql_blocking(schema, '{ ok user(id: "42") }', root={"ok": 1})
print("execution finished, data =", dict(result.data), "- errors:", len(result.errors))
try:
    response = result.response()
    text = json.dumps(response, allow_nan=False)
except Exception as err:  # noqa
    print("observed: result.response() raised %s: %s" % (type(err).__name__, err))
    print(
        "expected: a serialisable response with one error "
        '{"message": "\'42\'", "path": ["user"], "locations": [...]} and '
        'data {"ok": 1, "user": null}'
    )
    sys.exit(1)

ok = (
    isinstance(response["errors"][0]["message"], str)
    and response["errors"][0]["path"] == ["user"]
)
print(text)
sys.exit(0 if ok else 1)
