"""
C04: with the library's default resolver, a field that declares an argument
called `info`, `root` or `context` cannot be executed at all: the coerced
arguments are splatted as keywords next to the positional (root, context,
info) parameters of `default_resolver`.
"""
import json
import sys

from py_gql import build_schema, graphql_blocking

schema = build_schema(
    """
    type Account { id: ID, update(info: String): String }
    type Query {
        account: Account
        search(root: String, context: Int = 2): [String]
        plain(q: String): String
    }
    """
)


class Account:
    id = 7

    def update(self, ctx, info, **args):
        # documented default resolution: callable attributes are called with
        # (context, info, **args)
        return "updated with %r" % (args,)


ROOT = {"account": Account(), "search": ["x"], "plain": "ok"}

CASES = [
    ('{ plain(q: "a") }', {"plain": "ok"}),
    ('{ account { id update(info: "x") } }', {"account": {"id": "7", "update": "updated with {'info': 'x'}"}}),
    ('{ search(root: "/tmp") }', {"search": ["x"]}),
    ("{ search }", {"search": ["x"]}),  # `context` has a default value: always passed
]

bad = False
for doc, expected in CASES:
    try:
        res = graphql_blocking(schema, doc, root=ROOT)
        observed = json.loads(json.dumps(res.response()))
    except Exception as err:  # noqa
        observed = "raised %s: %s" % (type(err).__name__, err)
    ok = observed == {"data": expected}
    print("%-42s -> %s" % (doc, observed))
    if not ok:
        bad = True
        print("   VIOLATION C04: expected %s" % json.dumps({"data": expected}))

sys.exit(1 if bad else 0)
