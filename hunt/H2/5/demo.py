"""
C17: the response stream is built by calling `__anext__` directly on whatever
the subscription resolver returned; `__aiter__` is never called.  A source
event stream which is an async *iterable* (the thing `async for` accepts)
rather than an async *iterator* yields no result at all: pulling the first
event raises AttributeError.
"""
import asyncio
import sys

from py_gql import build_schema
from py_gql.execution import subscribe
from py_gql.execution.runtime import AsyncIORuntime
from py_gql.lang import parse

schema = build_schema(
    """
    type Query { _: Int }
    type Subscription { tick: Int }
    """
)


class Channel:
    """Broadcast style source: every `async for` gets its own cursor."""

    def __init__(self, events):
        self.events = events

    def __aiter__(self):
        async def cursor():
            for e in self.events:
                await asyncio.sleep(0)
                yield e

        return cursor()


CHANNEL = Channel([1, 2, 3])

schema.register_subscription("Subscription", "tick", lambda *_: CHANNEL)
schema.register_resolver("Subscription", "tick", lambda event, *_: event)


async def main():
    # sanity: the source is a perfectly good finite event stream
    assert [e async for e in CHANNEL] == [1, 2, 3]

    stream = await subscribe(
        schema, parse("subscription { tick }"), runtime=AsyncIORuntime()
    )
    got = []
    try:
        async for result in stream:
            got.append(result.response())
    except Exception as err:  # noqa
        print("observed: %d results, then %s: %s" % (len(got), type(err).__name__, err))
        print("expected: one result per source event: "
              "[{'data': {'tick': 1}}, {'data': {'tick': 2}}, {'data': {'tick': 3}}]")
        return 1
    print("results:", got)
    return 0 if [r["data"]["tick"] for r in got] == [1, 2, 3] else 1


sys.exit(asyncio.run(main()))
