"""
C16 / C17: `subscribe` fires on_execution_start BEFORE it checks whether the
operation can be served (exactly one root field, a subscription resolver on
it).  When it then refuses the operation with the documented exception the
execution stage is left open: on_execution_end never fires.
"""
import asyncio
import sys

from py_gql import build_schema
from py_gql.execution import Instrumentation, subscribe
from py_gql.execution.runtime import AsyncIORuntime
from py_gql.lang import parse
from py_gql.validation import validate_ast

schema = build_schema(
    """
    type Query { _: Int }
    type Subscription { tick: Int, unwired: Int }
    """
)


async def ticks():
    yield 1


schema.register_subscription("Subscription", "tick", lambda *_: ticks())
schema.register_resolver("Subscription", "tick", lambda event, *_: event)


class Rec(Instrumentation):
    def __init__(self):
        self.ev = []

    def on_execution_start(self):
        self.ev.append("exec+")

    def on_execution_end(self):
        self.ev.append("exec-")


CASES = [
    # zero root fields once @skip is applied: passes validation (one root field)
    ("subscription ($s: Boolean!) { tick @skip(if: $s) }", {"s": True}),
    # field without subscription resolver
    ("subscription { unwired }", {}),
    # control
    ("subscription { tick }", {}),
]


async def main():
    bad = False
    for text, variables in CASES:
        doc = parse(text)
        assert validate_ast(schema, doc), "document must be valid"
        rec = Rec()
        try:
            stream = await subscribe(
                schema,
                doc,
                variables=variables,
                runtime=AsyncIORuntime(),
                instrumentation=rec,
            )
            outcome = [r.response() async for r in stream]
        except Exception as err:  # noqa
            outcome = "refused with %s: %s" % (type(err).__name__, err)
        print("%-55s %s\n%55s hooks: %s" % (text, outcome, "", rec.ev))
        if rec.ev.count("exec+") != rec.ev.count("exec-"):
            bad = True
            print(
                "   VIOLATION C16: execution stage started %d time(s) but ended %d time(s)"
                % (rec.ev.count("exec+"), rec.ev.count("exec-"))
            )
    return 1 if bad else 0


sys.exit(asyncio.run(main()))
