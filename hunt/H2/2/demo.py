"""
C08: a resolver raising py_gql.exc.CoercionError (for instance through the
library's own ResolveInfo.get_directive_arguments or utilities.coerce_value)
is a handled field error for BlockingExecutor but an unexpected exception for
the generic Executor (blocking, asyncio and thread-pool runtimes).
"""
import asyncio
import json
import sys

from py_gql import build_schema, process_graphql_query
from py_gql.execution import BlockingExecutor
from py_gql.execution.runtime import AsyncIORuntime, ThreadPoolRuntime
from py_gql.schema import Int, NonNullType
from py_gql.utilities import coerce_value

schema = build_schema(
    """
    directive @limit(n: Int!) on FIELD
    type Query { a: Int, payload: Int, limited: [Int] }
    """
)


@schema.resolver("Query.payload")
def payload(root, ctx, info):
    # validates some stored JSON against a GraphQL type with the public helper
    return coerce_value(None, NonNullType(Int))


@schema.resolver("Query.limited")
def limited(root, ctx, info):
    # custom FIELD directive handling, as documented for ResolveInfo
    args = info.get_directive_arguments("limit")
    return list(range(args["n"] if args else 3))


CASES = [
    ("{ a payload }", None),
    ("query ($n: Int = 2) { a limited @limit(n: $n) }", {"n": None}),
]


def run(name, doc, variables):
    kw = dict(root={"a": 3}, variables=variables)
    try:
        if name == "blocking-executor":
            res = process_graphql_query(
                schema, doc, executor_cls=BlockingExecutor, **kw
            )
        elif name == "generic/blocking-runtime":
            res = process_graphql_query(schema, doc, **kw)
        elif name == "asyncio":
            loop = asyncio.new_event_loop()
            asyncio.set_event_loop(loop)
            try:
                res = loop.run_until_complete(
                    process_graphql_query(
                        schema, doc, runtime=AsyncIORuntime(loop=loop), **kw
                    )
                )
            finally:
                loop.close()
        else:
            res = process_graphql_query(
                schema, doc, runtime=ThreadPoolRuntime(max_workers=2), **kw
            ).result(timeout=10)
        return "result " + json.dumps(res.response(), sort_keys=True)
    except Exception as err:  # noqa
        return "raised %s: %s" % (type(err).__name__, err)


bad = False
for doc, variables in CASES:
    print("==", doc, variables)
    outcomes = {}
    for name in (
        "blocking-executor",
        "generic/blocking-runtime",
        "asyncio",
        "thread-pool",
    ):
        outcomes[name] = run(name, doc, variables)
        print("  %-26s %s" % (name, outcomes[name]))
    if len(set(outcomes.values())) != 1:
        bad = True
        print(
            "  VIOLATION C08: same operation, same resolvers, different "
            "outcome depending on the executor variant"
        )

sys.exit(1 if bad else 0)
