"""
C08 / C16 / C10: an ExecutionError or VariablesCoercionError raised *inside a
resolver* is mistaken by process_graphql_query for a request-level failure, but
only when the exception travels synchronously (blocking executor, generic
executor on the blocking runtime).  The asyncio and thread-pool runtimes let
the very same exception fail the overall result.
"""
import asyncio
import sys

from py_gql import build_schema, process_graphql_query
from py_gql.execution import BlockingExecutor, Instrumentation, execute
from py_gql.execution.runtime import AsyncIORuntime, ThreadPoolRuntime
from py_gql.lang import parse

inner = build_schema("type Query { x(n: Int!): Int }")
INNER_DOC = parse("\n\n\n      query ($n: Int!) { x(n: $n) }")

schema = build_schema("type Query { a: Int, delegated: Int }")


@schema.resolver("Query.delegated")
def delegated(root, ctx, info):
    # Delegates to another schema through the documented `execute` helper and
    # forgets a variable: `execute` raises VariablesCoercionError, which for
    # the outer request is an unexpected resolver exception.
    return execute(inner, INNER_DOC, variables={}).data["x"]


class Rec(Instrumentation):
    def __init__(self):
        self.ev = []

    def on_query_start(self):
        self.ev.append("query+")

    def on_query_end(self):
        self.ev.append("query-")

    def on_execution_start(self):
        self.ev.append("exec+")

    def on_execution_end(self):
        self.ev.append("exec-")


DOC = "{ a delegated }"


def run(name):
    rec = Rec()
    kw = dict(root={"a": 3}, instrumentation=rec)
    try:
        if name == "blocking-executor":
            res = process_graphql_query(
                schema, DOC, executor_cls=BlockingExecutor, **kw
            )
        elif name == "generic/blocking-runtime":
            res = process_graphql_query(schema, DOC, **kw)
        elif name == "asyncio":
            loop = asyncio.new_event_loop()
            asyncio.set_event_loop(loop)
            try:
                res = loop.run_until_complete(
                    process_graphql_query(
                        schema, DOC, runtime=AsyncIORuntime(loop=loop), **kw
                    )
                )
            finally:
                loop.close()
        else:
            res = process_graphql_query(
                schema, DOC, runtime=ThreadPoolRuntime(max_workers=2), **kw
            ).result(timeout=10)
        return ("result", res.response()), rec.ev
    except Exception as err:  # noqa
        return ("raised", "%s: %s" % (type(err).__name__, err)), rec.ev


outcomes = {}
for name in (
    "blocking-executor",
    "generic/blocking-runtime",
    "asyncio",
    "thread-pool",
):
    outcomes[name] = run(name)
    print("%-26s %s\n%26s hooks: %s" % (name, outcomes[name][0], "", outcomes[name][1]))

problems = []
kinds = {name: o[0][0] for name, o in outcomes.items()}
if len(set(kinds.values())) != 1:
    problems.append(
        "C08: the four configurations disagree on the same unexpected resolver "
        "exception: %s" % kinds
    )
for name, ((kind, payload), hooks) in outcomes.items():
    if kind == "result":
        problems.append(
            "C08 [%s]: the unexpected exception was swallowed into a response "
            "(data=%r) instead of failing the overall result"
            % (name, payload.get("data"))
        )
        if hooks.count("exec+") != hooks.count("exec-"):
            problems.append(
                "C16 [%s]: on_execution_start fired without on_execution_end: %s"
                % (name, hooks)
            )
        for e in payload.get("errors", []):
            for loc in e.get("locations", []):
                if loc["line"] > len(DOC.split("\n")):
                    problems.append(
                        "C10 [%s]: error location %s lies outside the submitted "
                        "document %r (it points into the resolver's inner document)"
                        % (name, loc, DOC)
                    )

print()
for p in problems:
    print("VIOLATION", p)
sys.exit(1 if problems else 0)
