"""
C10 (extensions passed through): the documentation of ResolverError says "If
your exception exposes an ``extensions`` attribute it will be included in the
serialized version without the need to override to_dict".  A subclass exposing
the attribute in the most direct way - at class level - loses it:
ResolverError.__init__ always overwrites it with the (None) constructor
argument.
"""
import json
import sys

from py_gql import build_schema, graphql_blocking
from py_gql.exc import ResolverError


class NotFound(ResolverError):
    extensions = {"code": "NOT_FOUND"}


class Forbidden(ResolverError):
    @property
    def extensions(self):
        return {"code": "FORBIDDEN", "detail": self.message}

    @extensions.setter
    def extensions(self, value):  # ResolverError.__init__ assigns the attribute
        pass


schema = build_schema("type Query { a: Int, b: Int, c: Int }")
schema.register_resolver("Query", "a", lambda *_: (_ for _ in ()).throw(NotFound("no a")))
schema.register_resolver("Query", "b", lambda *_: (_ for _ in ()).throw(Forbidden("no b")))
schema.register_resolver(
    "Query", "c", lambda *_: (_ for _ in ()).throw(ResolverError("no c", extensions={"code": "ARG"}))
)

response = graphql_blocking(schema, "{ a b c }").response()
print(json.dumps(response, indent=1))
by_path = {e["path"][0]: e for e in response["errors"]}
expected = {
    "a": {"code": "NOT_FOUND"},
    "b": {"code": "FORBIDDEN", "detail": "no b"},
    "c": {"code": "ARG"},
}
bad = False
for key, ext in expected.items():
    if by_path[key].get("extensions") != ext:
        bad = True
        print(
            "VIOLATION C10: error at %r exposes extensions %r on the exception but the "
            "response entry has %r" % (key, ext, by_path[key].get("extensions"))
        )
sys.exit(1 if bad else 0)
