"""C01: syntax errors in CR-terminated text are reported on line 1.

The lexer follows the grammar (LineTerminator is LF, CR or CRLF: a CR ends a
comment and separates block string lines), but the line / column shown in the
message and in the response-error dictionary only count LF.

Run: PYTHONPATH=/repo/src /venv/bin/python demo.py
"""
import sys

from py_gql import build_schema
from py_gql.exc import GraphQLSyntaxError
from py_gql.lang import parse
from py_gql.validation import validate_ast

LINES = ["query {", "  a # comment", "  b", "  $oops", "}"]
bad = 0
results = {}
for label, eol in [("LF", "\n"), ("CRLF", "\r\n"), ("CR", "\r")]:
    text = eol.join(LINES)
    try:
        parse(text)
    except GraphQLSyntaxError as err:
        loc = err.to_dict()["locations"][0]
        line, col = loc["line"], loc.get("column", loc.get("columne"))
        results[label] = (line, col)
        print("%-4s line terminators: reported line %d, column %d" % (label, line, col))
        if label == "CR":
            print(str(err).replace("\r", "\\r"))
    else:
        print("not rejected?!")
        bad += 1

# "$" is the 3rd character of the 4th line whatever the (valid) line terminator
for label, got in results.items():
    if got != (4, 3):
        print("WRONG: %s text: error located at %r, expected (4, 3)" % (label, got))
        bad += 1

# the same helper locates validation / execution errors
schema = build_schema("type Query { a: Int }")
doc = parse("{\r  a\r  nope\r}")
loc = validate_ast(schema, doc).errors[0].to_dict()["locations"][0]
print("validation error on the 3rd line of a CR-terminated query:", loc)
if loc != {"line": 3, "column": 3}:
    print("WRONG: expected {'line': 3, 'column': 3}")
    bad += 1

sys.exit(1 if bad else 0)
