"""C02 / C18: copies of a FragmentDefinition lose their source text.

Every parser-produced node carries `source` + `loc` so that its span can be
resolved.  `copy.copy`, `copy.deepcopy`, `Node.copy()` and `Node.deepcopy()`
keep both for every node kind - except FragmentDefinition, whose copy has
`loc` but `source is None`.  The visitor documentation tells users to
`copy.deepcopy` a document before transforming it; errors located on a
fragment of such a copy have no `locations`.

Run: PYTHONPATH=/repo/src /venv/bin/python demo.py
"""
import copy
import sys

from py_gql import build_schema
from py_gql.lang import ast, parse
from py_gql.validation import validate_ast

TEXT = """
query Q($v: Int = 1 @d) @d { a(x: [1, {k: "s"}]) @d { ...F ... on T { b } } }
fragment F on T @d { b }
type T implements I @d { "d" b(a: Int = 1 @d): [Int!]! @d }
extend schema @d { query: T }
directive @d on FIELD
"""

bad = 0
doc = parse(TEXT, allow_type_system=True)


def walk(node):
    if isinstance(node, ast.Node):
        yield node
        for attr in node.__slots__:
            if attr not in ("loc", "source"):
                yield from walk(getattr(node, attr))
    elif isinstance(node, list):
        for entry in node:
            yield from walk(entry)


for label, clone in [
    ("copy.deepcopy(doc)", copy.deepcopy(doc)),
    ("doc.deepcopy()", doc.deepcopy()),
]:
    for orig, new in zip(walk(doc), walk(clone)):
        assert type(orig) is type(new)
        if orig.source != new.source or orig.loc != new.loc:
            print(
                "WRONG: %s: %s at %r: source %s -> %r, loc %r -> %r"
                % (
                    label,
                    type(orig).__name__,
                    TEXT[orig.loc[0] : orig.loc[0] + 12],
                    "<text>" if orig.source == TEXT else orig.source,
                    new.source,
                    orig.loc,
                    new.loc,
                )
            )
            bad += 1

frag = doc.definitions[1]
print("FragmentDefinition.__slots__ =", ast.FragmentDefinition.__slots__)
for label, clone in [("copy.copy", copy.copy(frag)), ("Node.copy()", frag.copy())]:
    if clone.source != frag.source:
        print("WRONG: %s of the fragment definition: source is %r" % (label, clone.source))
        bad += 1

# Consequence through the public validation API: same document, same error,
# but the location is gone on the copy.
schema = build_schema("type Query { a: Int }")
query = parse("{ ...A }\nfragment A on Query { a }\nfragment A on Query { a }")
original = [e.to_dict() for e in validate_ast(schema, query).errors]
copied = [e.to_dict() for e in validate_ast(schema, copy.deepcopy(query)).errors]
print("validate_ast(schema, doc)           ->", original)
print("validate_ast(schema, deepcopy(doc)) ->", copied)
if original != copied:
    print("WRONG: the deep copy of an equal document yields a different error (locations lost)")
    bad += 1

sys.exit(1 if bad else 0)
