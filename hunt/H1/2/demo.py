"""C01: Parser.peek(count) never returns when fewer than `count` tokens are left.

Parser is exported from py_gql.lang and peek() is documented:
    "Raises: UnexpectedEOF: if there is not enough tokens left in the lexer."

Run: PYTHONPATH=/repo/src /venv/bin/python demo.py
"""
import multiprocessing
import sys


def probe(source, count, queue):
    from py_gql.exc import GraphQLSyntaxError
    from py_gql.lang import Parser

    parser = Parser(source)
    try:
        token = parser.peek(count)
    except GraphQLSyntaxError as err:
        queue.put("raised %s" % type(err).__name__)
    else:
        queue.put("returned %r" % (token,))


def run(source, count, timeout=5):
    queue = multiprocessing.Queue()
    proc = multiprocessing.Process(target=probe, args=(source, count, queue))
    proc.start()
    proc.join(timeout)
    if proc.is_alive():
        proc.terminate()
        proc.join()
        return "HANG (no result after %ds, process killed)" % timeout
    return queue.get()


if __name__ == "__main__":
    bad = 0
    # "a" lexes to three tokens: <SOF> a <EOF>
    for source, count in [("a", 3), ("a", 4), ("", 3), ("{ a }", 7)]:
        outcome = run(source, count)
        print("Parser(%r).peek(%d): %s" % (source, count, outcome))
        n_tokens = {"a": 3, "": 2, "{ a }": 5}[source]
        if count > n_tokens and not outcome.startswith("raised UnexpectedEOF"):
            print("  WRONG: documented / expected outcome is UnexpectedEOF")
            bad += 1
    sys.exit(1 if bad else 0)
