"""C01: the response-error dictionary of a syntax error has no "column" entry.

Run: PYTHONPATH=/repo/src /venv/bin/python demo.py
"""
import sys

from py_gql import build_schema, graphql_blocking
from py_gql.exc import GraphQLSyntaxError
from py_gql.lang import parse

bad = 0

# 1. directly on the exception
try:
    parse("{ a\n  $ }")
except GraphQLSyntaxError as err:
    d = err.to_dict()
    loc = d["locations"][0]
    print("GraphQLSyntaxError.to_dict() ->", d["locations"])
    if sorted(loc) != ["column", "line"]:
        print(
            "WRONG: location keys are %r, the response format (June 2018, 7.1.2 "
            "Errors) demands exactly 'line' and 'column'" % sorted(loc)
        )
        bad += 1
    if loc.get("column") != 3 or loc.get("line") != 2:
        print("WRONG: expected {'line': 2, 'column': 3}, got %r" % loc)
        bad += 1

# 2. the same dictionary reaches the client through the top level entry point
schema = build_schema("type Query { a: Int }")
resp = graphql_blocking(schema, "{ a\n  $ }").response()
loc = resp["errors"][0]["locations"][0]
print("graphql_blocking(...).response()['errors'][0]['locations'] ->", [loc])
if "column" not in loc:
    print("WRONG: the served response has no 'column' in its error location")
    bad += 1

sys.exit(1 if bad else 0)
