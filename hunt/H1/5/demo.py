"""C18: visiting a document the parser accepted raises RecursionError.

At the default recursion limit (1000) the parser accepts about 240 nested
selection sets / 320 nested list or object values.  ASTVisitor needs many more
interpreter frames per level, so documents of less than half that depth cannot
be visited - and since validation is a visitor, graphql() crashes on them
instead of answering.

Run: PYTHONPATH=/repo/src /venv/bin/python demo.py
"""
import sys

from py_gql import build_schema, graphql_blocking
from py_gql.lang import parse
from py_gql.lang.visitor import ASTVisitor, DispatchingVisitor
from py_gql.validation import validate_ast

assert sys.getrecursionlimit() == 1000, "demo calibrated for the default limit"

bad = 0


class Counter(ASTVisitor):
    def __init__(self):
        self.entered = self.left = 0

    def enter(self, node):
        self.entered += 1
        return node

    def leave(self, node):
        self.left += 1


def first_failure(make, action, top=400):
    for depth in range(10, top, 10):
        text = make(depth)
        try:
            doc = parse(text)
        except RecursionError:
            return depth, "parse"
        try:
            action(doc)
        except RecursionError:
            return depth, "visit"
    return None, None


shapes = {
    "nested selection sets": lambda n: "{ a " * n + "}" * n,
    "nested inline fragments": lambda n: "{ " + "... { " * n + "a " + "} " * n + "}",
    "nested list values": lambda n: "{ a(x: " + "[" * n + "]" * n + ") }",
    "nested object values": lambda n: "{ a(x: " + "{k: " * n + "1" + "}" * n + ") }",
}
for label, make in shapes.items():
    for cls in (Counter, DispatchingVisitor):
        depth, stage = first_failure(make, lambda doc: cls().visit(doc))
        print("%-24s %-18s first failure at depth %s in %s" % (label, cls.__name__, depth, stage))
        if stage == "visit":
            print("  WRONG: parse() accepted the %d-character document, visit() raised RecursionError" % len(make(depth)))
            bad += 1

# What an API user sees: a 150-level query on a recursive type.
schema = build_schema("type Query { a: Query, b: Int }")
query = "{ " + "a { " * 150 + "b" + " }" * 150 + " }"
doc = parse(query)
print("150-level query (%d characters) parsed" % len(query))
for label, call in [
    ("validate_ast", lambda: validate_ast(schema, doc)),
    ("graphql_blocking", lambda: graphql_blocking(schema, query).response()),
]:
    try:
        call()
        print(label, "ok")
    except RecursionError:
        print("WRONG: %s raised RecursionError instead of returning a result" % label)
        bad += 1

sys.exit(1 if bad else 0)
