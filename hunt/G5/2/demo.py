"""C18: in a ChainedVisitor, SkipNode raised by one member (a) leaves every *earlier* member
entered-but-never-left for that node and (b) hides the node's children from members that did not
ask to skip.  Shown on the bare visitor and on the library's own validation chain."""
import sys
from py_gql.lang import parse, ast as A
from py_gql.lang.visitor import ASTVisitor, ChainedVisitor, SkipNode
from py_gql.schema import Schema, ObjectType, Field, Argument, Int, ScalarType
from py_gql import build_schema
from py_gql.validation import validate_ast

failures = []

class Rec(ASTVisitor):
    def __init__(self, skip=None):
        self.skip, self.ev = skip, []
    def enter(self, n):
        name = getattr(getattr(n, "name", None), "value", None)
        self.ev.append(("enter", type(n).__name__, name))
        if isinstance(n, A.Field) and name == self.skip:
            raise SkipNode()
        return n
    def leave(self, n):
        name = getattr(getattr(n, "name", None), "value", None)
        self.ev.append(("leave", type(n).__name__, name))

a, b = Rec(), Rec(skip="x")
ChainedVisitor(a, b).visit(parse("{ x { y } z }"))
entered = [e[1:] for e in a.ev if e[0] == "enter"]
left = [e[1:] for e in a.ev if e[0] == "leave"]
if sorted(map(str, entered)) != sorted(map(str, left)):
    failures.append(
        "member A never raised SkipNode, yet its enter/leave calls are unbalanced: entered %r without leave"
        % [e for e in entered if e not in left]
    )
if ("enter", "Field", "y") not in a.ev:
    failures.append("member A never raised SkipNode, yet it never reaches Field y (child of x)")

# Consequence 1: TypeInfoVisitor (first in the validation chain) pushes a type on enter_inline_fragment and
# pops on leave; PossibleFragmentSpreadsChecker raises SkipNode -> the pop never happens -> the *next*
# untyped inline fragment is checked against the leaked type U instead of A.
schema = build_schema("type Query { a: A } type A { y: Int } type U { x: Int }")
q = "{ a { ... on U { x } ... { y } } }"
errs = [str(e) for e in validate_ast(schema, parse(q)).errors]
if len(errs) != 1:
    failures.append("validation of %r: expected exactly 1 error (for '... on U'), got %r" % (q, errs))

# Consequence 2: ValuesOfCorrectTypeChecker raises SkipNode on an object literal given to a custom scalar;
# the variable-usage collectors earlier in the chain therefore never see $v.
JSON = ScalarType("JSON", serialize=lambda v: v, parse=lambda v: v, parse_literal=lambda n, v=None: "any")
schema = Schema(ObjectType("Query", [Field("f", Int, [Argument("j", JSON)])]))
q = "query ($v: Int) { f(j: {a: $v}) }"
errs = [str(e) for e in validate_ast(schema, parse(q)).errors]
if errs:
    failures.append("valid document %r rejected: %r" % (q, errs))
q = "{ f(j: {a: $undefined}) }"
errs = [str(e) for e in validate_ast(schema, parse(q)).errors]
if not errs:
    failures.append("invalid document %r (undefined variable) accepted" % q)

if failures:
    print("PROPERTY C18 VIOLATED (balanced enter/leave per visitor; skip suppresses only that node's children and leave; chained visitors enter in order and leave in reverse)")
    for f in failures:
        print("observed:", f)
    sys.exit(1)
print("ok")
