"""C20: removing the default value of a NON-NULL argument / input field / directive argument makes it
required, which invalidates existing operations, but is only reported as DANGEROUS (not BREAKING)."""
import sys
from py_gql import build_schema
from py_gql.lang import parse
from py_gql.schema.differ import diff_schema, SchemaChangeSeverity
from py_gql.validation import validate_ast

CASES = [
    ("field argument",
     "type Query { f(a: Int! = 1): Int }",
     "type Query { f(a: Int!): Int }",
     ["{ f }", "query ($v: Int) { f(a: $v) }"]),
    ("input field",
     "input I { a: Int! = 1 } type Query { f(i: I): Int }",
     "input I { a: Int! } type Query { f(i: I): Int }",
     ["{ f(i: {}) }"]),
    ("directive argument",
     "directive @d(a: Int! = 1) on FIELD type Query { f: Int }",
     "directive @d(a: Int!) on FIELD type Query { f: Int }",
     ["{ f @d }"]),
]
bad = False
for label, old_sdl, new_sdl, operations in CASES:
    old, new = build_schema(old_sdl), build_schema(new_sdl)
    changes = list(diff_schema(old, new))
    breaking = [c for c in changes if c.severity >= SchemaChangeSeverity.BREAKING]
    print("%s: changes = %r" % (label, [(c.severity.name, c.message) for c in changes]))
    for op in operations:
        before = [str(e) for e in validate_ast(old, parse(op)).errors]
        after = [str(e) for e in validate_ast(new, parse(op)).errors]
        assert not before, before
        if after and not breaking:
            bad = True
            print("  VIOLATION: no BREAKING change reported, yet %r is valid against the old schema and" % op)
            print("             invalid against the new one: %r" % after)
if bad:
    print("expected (C20): whenever no breaking change is reported, every operation valid against the old schema "
          "is valid against the new one / every input position is at least as permissive")
    sys.exit(1)
print("ok")
