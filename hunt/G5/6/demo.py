"""C20: the sequence of changes yielded by diff_schema depends on str hash randomisation (PYTHONHASHSEED),
because union members and directive locations are diffed through set differences."""
import os
import subprocess
import sys

CHILD = r'''
from py_gql import build_schema
from py_gql.schema.differ import diff_schema
old = build_schema("""
directive @d on FIELD | QUERY | MUTATION | FRAGMENT_SPREAD | INLINE_FRAGMENT
type Query { u: U a: A b: B c: C d: D e: E }
union U = A | B | C | D | E
type A { a: Int } type B { a: Int } type C { a: Int } type D { a: Int } type E { a: Int }
""")
new = build_schema("""
directive @d on FIELD
type Query { u: U a: A b: B c: C d: D e: E }
union U = A
type A { a: Int } type B { a: Int } type C { a: Int } type D { a: Int } type E { a: Int }
""")
print(" | ".join(c.message for c in diff_schema(old, new)))
'''

if __name__ == "__main__":
    outputs = {}
    for seed in range(8):
        env = dict(os.environ, PYTHONHASHSEED=str(seed))
        out = subprocess.run([sys.executable, "-c", CHILD], env=env, stdout=subprocess.PIPE, stderr=subprocess.PIPE, check=True)
        outputs.setdefault(out.stdout.decode().strip(), []).append(seed)
    if len(outputs) > 1:
        print("PROPERTY C20 VIOLATED: 'The result does not depend on hash ordering'")
        print("the same (old, new) pair gives %d different change sequences over 8 hash seeds:" % len(outputs))
        for o, seeds in outputs.items():
            print("  seeds %r: %s" % (seeds, o))
        sys.exit(1)
    print("ok")
