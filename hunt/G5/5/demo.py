"""C20: diff_schema never compares the root operation types (schema { query / mutation / subscription }).
Re-pointing or dropping a root type is reported as 'no change'."""
import sys
from py_gql import build_schema, graphql_blocking
from py_gql.lang import parse
from py_gql.schema.differ import diff_schema
from py_gql.validation import validate_ast

TYPES = " type Q { a: Int m: M s: S } type M { b: Int q: Q } type S { c: Int }"
CASES = [
    ("query root re-pointed Q -> M", "schema { query: Q }" + TYPES, "schema { query: M }" + TYPES, "{ a }"),
    ("mutation root removed", "schema { query: Q mutation: M }" + TYPES, "schema { query: Q }" + TYPES, "mutation { b }"),
    ("mutation root re-pointed M -> S", "schema { query: Q mutation: M }" + TYPES, "schema { query: Q mutation: S }" + TYPES, "mutation { b }"),
    ("subscription root added", "schema { query: Q }" + TYPES, "schema { query: Q subscription: S }" + TYPES, None),
]
bad = False
for label, old_sdl, new_sdl, op in CASES:
    old, new = build_schema(old_sdl), build_schema(new_sdl)
    changes = [(c.severity.name, c.message) for c in diff_schema(old, new)]
    print("%s: changes = %r" % (label, changes))
    if not changes:
        bad = True
        print("  VIOLATION: the edit is not reported at all")
        if op:
            r_old = graphql_blocking(old, op, root={}).response()
            r_new = graphql_blocking(new, op, root={}).response()
            print("  operation %r: old -> %r ; new -> %r" % (op, r_old, r_new))
            print("  validation errors against new:", [str(e) for e in validate_ast(new, parse(op)).errors])
if bad:
    print("expected (C20): every elementary edit is reported with a change naming the edited element; no breaking "
          "change reported => every operation valid against the old schema is valid against the new one")
    sys.exit(1)
print("ok")
