"""C18: in a ChainedVisitor, when a member's enter() returns None the remaining members are not entered
for that node, but they DO get leave() for it and they DO get its children: leave without enter."""
import sys
from py_gql.lang import parse, ast as A
from py_gql.lang.visitor import ASTVisitor, ChainedVisitor

class Rec(ASTVisitor):
    def __init__(self, drop=None):
        self.drop, self.ev = drop, []
    def _key(self, n):
        return (type(n).__name__, getattr(getattr(n, "name", None), "value", None))
    def enter(self, n):
        self.ev.append(("enter",) + self._key(n))
        if isinstance(n, A.Field) and n.name.value == self.drop:
            return None
        return n
    def leave(self, n):
        self.ev.append(("leave",) + self._key(n))

first, second = Rec(drop="x"), Rec()
ChainedVisitor(first, second).visit(parse("{ x { y } z }"))

failures = []
stack = []
for ev in second.ev:
    if ev[0] == "enter":
        stack.append(ev[1:])
    elif not stack or stack.pop() != ev[1:]:
        failures.append("second member: leave%r without a matching enter" % (ev[1:],))
        break
if ("enter", "Field", "x") not in second.ev and ("enter", "Field", "y") in second.ev:
    failures.append("second member: enters Field y (child of x) although it was never entered on Field x itself")
if ("leave", "Field", "x") in first.ev:
    failures.append("first member: returned None from enter(Field x) yet receives leave(Field x) (ASTVisitor.leave docs: "
                    "\"This doesn't run if enter returned None\")")
if failures:
    print("PROPERTY C18 VIOLATED: enter then leave exactly once per node for every visitor, parents entered before children; "
          "chained visitors enter in order and leave in reverse")
    print("second member events:", second.ev)
    for f in failures:
        print("observed:", f)
    sys.exit(1)
print("ok")
