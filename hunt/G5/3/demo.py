"""C18 (ast_transforms): SnakeCaseToCamelCaseVisitor crashes on a valid document whose field name
consists only of underscores, and rewrites already-camel-cased tails lossily."""
import sys
from py_gql.lang import parse, print_ast
from py_gql.utilities.ast_transforms import SnakeCaseToCamelCaseVisitor

failures = []
for src in ("{ _ }", "{ a { __ } }", "{ foo: _(x: 1) { bar } }"):
    doc = parse(src)          # `_` and `__` are valid GraphQL Names: /[_A-Za-z][_0-9A-Za-z]*/
    try:
        SnakeCaseToCamelCaseVisitor().visit(doc)
    except Exception as e:  # noqa
        failures.append("%s: visit raised %r (expected: field left as is, nothing to convert)" % (src, e))

doc = parse("{ foo_barBaz }")
SnakeCaseToCamelCaseVisitor().visit(doc)
name = doc.definitions[0].selection_set.selections[0].name.value
if name != "fooBarBaz":
    failures.append("{ foo_barBaz }: renamed to %r, expected 'fooBarBaz' (inner capitals of a segment are lower-cased by str.title())" % name)

if failures:
    print("PROPERTY C18 VIOLATED (a visitor transform must process every parsed document; edits stay local)")
    for f in failures:
        print("observed:", f)
    sys.exit(1)
print("ok")
