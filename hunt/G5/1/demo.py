"""C18: a replacement returned from enter() that is of another (legal) node kind for
the same slot is not substituted; the traversal crashes instead."""
import sys
from py_gql.lang import parse, print_ast, ast as A
from py_gql.lang.visitor import DispatchingVisitor

failures = []

# Case 1: replace the Field selection `x` with a FragmentSpread `...F` (both are Selections).
class FieldToSpread(DispatchingVisitor):
    def enter_field(self, f):
        if f.name.value == "x":
            return A.FragmentSpread(name=A.Name("F"))
        return f

doc = parse("{ a x b } fragment F on Query { c }")
try:
    FieldToSpread().visit(doc)
    got = [type(s).__name__ for s in doc.definitions[0].selection_set.selections]
    if got != ["Field", "FragmentSpread", "Field"]:
        failures.append("case 1: selections are %r" % got)
except Exception as e:  # noqa
    failures.append("case 1 (Field -> FragmentSpread): visit raised %r" % e)

# Case 2: replace an inline fragment with a leaf Field.
class InlineToField(DispatchingVisitor):
    def enter_inline_fragment(self, f):
        return A.Field(name=A.Name("typename_placeholder"))

doc = parse("{ a ... on T { b } c }")
try:
    InlineToField().visit(doc)
    got = [type(s).__name__ for s in doc.definitions[0].selection_set.selections]
    if got != ["Field", "Field", "Field"]:
        failures.append("case 2: selections are %r" % got)
except Exception as e:  # noqa
    failures.append("case 2 (InlineFragment -> Field): visit raised %r" % e)

# Case 3: replace an object type definition with an interface definition (both TypeDefinitions).
class ObjToIface(DispatchingVisitor):
    def enter_object_type_definition(self, d):
        return A.InterfaceTypeDefinition(name=d.name, fields=d.fields)

doc = parse("type T { a: Int } type Q { t: T }", allow_type_system=True)
try:
    ObjToIface().visit(doc)
except Exception as e:  # noqa
    failures.append("case 3 (ObjectTypeDefinition -> InterfaceTypeDefinition): visit raised %r" % e)

if failures:
    print("PROPERTY C18 VIOLATED: 'returning a replacement substitutes exactly that node'")
    print("expected: the replacement node takes the place of the original, siblings untouched")
    for f in failures:
        print("observed:", f)
    sys.exit(1)
print("ok")
