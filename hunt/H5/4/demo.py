"""
C20 -- diffing structurally equal schemas reports DANGEROUS default value
changes: defaults are compared as internal Python values (python_name keyed
dicts, Python enum members, parsed scalar values) instead of as GraphQL values.

Typical use: diff_schema(build_schema(<SDL of the released schema>), <current
code-first / transformed schema>).
"""
import datetime
import enum
import sys

from py_gql.schema import (
    Argument,
    EnumType,
    Field,
    InputField,
    InputObjectType,
    Int,
    ObjectType,
    ScalarType,
    Schema,
    String,
)
from py_gql.schema.differ import diff_schema
from py_gql.schema.transforms import CamelCaseSchemaTransform, transform_schema
from py_gql.sdl import build_schema

problems = []


def compare(label, current, **build_kw):
    sdl = current.to_string()
    released = build_schema(sdl, **build_kw)
    assert released.to_string() == sdl, "the two schemas print identically"
    for old, new, direction in (
        (released, current, "SDL -> schema"),
        (current, released, "schema -> SDL"),
    ):
        changes = list(diff_schema(old, new))
        if changes:
            problems.append(
                "%s (%s): %s"
                % (
                    label,
                    direction,
                    ["%s: %s" % (c.severity.name, c.message) for c in changes],
                )
            )


# 1. the library's own camel case transform: input object defaults stay keyed
#    by the python (snake case) names.
snake = build_schema(
    """
    input In { some_field: Int = 1, other: String }
    type Query { f(the_arg: In = {some_field: 2}): Int }
    """
)
compare("camel cased schema", transform_schema(snake, CamelCaseSchemaTransform()))


# 2. enum backed by a Python enum (EnumType.from_python_enum)
class Color(enum.Enum):
    RED = 1
    BLUE = 2


ColorType = EnumType.from_python_enum(Color)
compare(
    "python enum default",
    Schema(
        ObjectType(
            "Query",
            [
                Field(
                    "f",
                    Int,
                    args=[Argument("c", ColorType, default_value=Color.RED)],
                )
            ],
        )
    ),
)

# 3. input field with a python_name (code first schema)
In = InputObjectType(
    "In", [InputField("someField", Int, python_name="some_field")]
)
compare(
    "python_name keyed default",
    Schema(
        ObjectType(
            "Query",
            [
                Field(
                    "f",
                    Int,
                    args=[
                        Argument("x", In, default_value={"some_field": 1})
                    ],
                )
            ],
        )
    ),
)

# 4. custom scalar with a Python representation
Date = ScalarType(
    "Date",
    serialize=lambda d: d.isoformat(),
    parse=lambda s: datetime.date(*map(int, s.split("-"))),
)
compare(
    "custom scalar default",
    Schema(
        ObjectType(
            "Query",
            [
                Field(
                    "f",
                    String,
                    args=[
                        Argument(
                            "d", Date, default_value=datetime.date(2020, 1, 2)
                        )
                    ],
                )
            ],
        )
    ),
)

# 5. the converse: the GraphQL default changes (A -> B) but the Python value it
#    maps to does not, and the edit is not reported at all.
def level_schema(values):
    level = EnumType("Level", values)
    return Schema(
        ObjectType(
            "Query",
            [Field("f", Int, args=[Argument("l", level, default_value=1)])],
        )
    )


old = level_schema([("A", 1), ("B", 2)])
new = level_schema([("A", 2), ("B", 1)])
assert "f(l: Level = A)" in old.to_string() and "f(l: Level = B)" in new.to_string()
if not list(diff_schema(old, new)):
    problems.append(
        "default edited from `f(l: Level = A)` to `f(l: Level = B)`: no change "
        "reported (expected a default value change naming Query.f(l:))"
    )

if problems:
    print("C20 violated: a schema diffed against a structurally equal one reports changes")
    for p in problems:
        print(" -", p)
    print(
        "expected: no change for the structurally equal pairs (both schemas "
        "print to the same SDL and report the same defaultValue through "
        "introspection), and a default value change for the A -> B edit"
    )
    sys.exit(1)
print("ok")
