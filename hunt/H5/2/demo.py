"""
C14 -- extend_schema(..., schema_directives=[...]) applies the schema
directives a second time to every element of the SOURCE schema which already
carries them, although the extension document does not target those elements:
the resolver of an untouched field is not preserved.
"""
import sys

from py_gql import graphql_blocking
from py_gql.sdl import SchemaDirective, build_schema, extend_schema

calls = []


class Suffix(SchemaDirective):
    definition = "suffix"

    def on_field(self, field):
        calls.append(field.name)
        inner = field.resolver or (
            lambda root, ctx, info, **kw: root.get(info.field_definition.name)
        )
        suffix = self.args["value"]

        def resolver(root, ctx, info, **kw):
            return "%s%s" % (inner(root, ctx, info, **kw), suffix)

        field.resolver = resolver
        return field


class Hidden(SchemaDirective):
    """Counts how often it is applied to an enum value."""

    definition = "audit"
    seen = []

    def on_enum_value(self, ev):
        Hidden.seen.append(ev.name)
        return ev


SDL = """
directive @suffix(value: String = "!") on FIELD_DEFINITION
directive @audit on ENUM_VALUE
enum E { A @audit }
type Query { a: String @suffix(value: "?")  e: E }
"""

root = {"a": "A", "z": "Z"}
source = build_schema(SDL, schema_directives=[Suffix, Hidden])
before = graphql_blocking(source, "{ a }", root=root).response()
assert before == {"data": {"a": "A?"}}, before
assert calls == ["a"] and Hidden.seen == ["A"]

extended = extend_schema(
    source,
    'extend type Query { z: String @suffix(value: "#") }',
    schema_directives=[Suffix, Hidden],
)
after = graphql_blocking(extended, "{ a z }", root=root).response()

problems = []
if after["data"]["a"] != "A?":
    problems.append(
        "Query.a is not targeted by the extension but now resolves to %r "
        "(was 'A?'): @suffix has been applied to it twice" % after["data"]["a"]
    )
if calls.count("a") != 1:
    problems.append("Suffix.on_field ran %d times for Query.a" % calls.count("a"))
if Hidden.seen != ["A"]:
    problems.append(
        "@audit ran %d times for the untouched enum value E.A" % len(Hidden.seen)
    )

# Without schema_directives the new field's directive is ignored, so there is
# no way of extending a directive-bearing schema correctly.
plain = extend_schema(source, 'extend type Query { z: String @suffix(value: "#") }')
plain_res = graphql_blocking(plain, "{ a z }", root=root).response()
remark = (
    "(note: without schema_directives the directive of the new field is not "
    "applied at all: %r)" % dict(plain_res["data"])
)

if problems:
    print("C14 violated: extend_schema re-applies the source schema's directives")
    print("  before extension:", dict(before["data"]))
    print("  after  extension:", dict(after["data"]))
    for p in problems:
        print(" -", p)
    print(remark)
    print("expected: {'a': 'A?', 'z': 'Z#'} -- the resolver of the untargeted "
          "field Query.a is preserved, the directive only applied to Query.z")
    sys.exit(1)
print("ok")
