"""
C15 -- the introspection result depends on the schema wide default resolver.

The fields of the introspection types (__Type.name, __Field.args,
__Field.isDeprecated, __InputValue.type, __Schema.queryType, ...) have no
resolver of their own: they are resolved by whatever ``schema.default_resolver``
is. A default resolver which is perfectly adequate for the application's own
values (dict lookup by field name, camelCase -> snake_case attribute lookup)
makes the standard introspection query fail or report wrong content.
"""
import re
import sys

from py_gql import graphql_blocking
from py_gql.sdl import build_schema
from py_gql.utilities import introspection_query

SDL = """
enum E { A B @deprecated(reason: "no") }
type Query {
    someField(arg: E = A): String
    old: Int @deprecated(reason: "gone")
}
"""

reference_schema = build_schema(SDL)
reference = graphql_blocking(reference_schema, introspection_query()).response()
assert "errors" not in reference

ROOT = {"someField": "x", "old": 1}


def by_key(root, ctx, info, **args):
    # The application resolves everything from (nested) dicts keyed by the
    # GraphQL field name.
    return root[info.field_definition.name]


class Obj:
    some_field = "x"
    old = 1


def snake_attr(root, ctx, info, **args):
    # The application exposes camelCase fields of objects with snake_case
    # attributes.
    name = re.sub(r"([A-Z])", lambda m: "_" + m.group(1).lower(), info.field_definition.name)
    return getattr(root, name, None)


problems = []
for label, resolver, root in (
    ("dict lookup default resolver", by_key, ROOT),
    ("snake_case attribute default resolver", snake_attr, Obj()),
):
    schema = build_schema(SDL)
    schema.default_resolver = resolver
    schema.validate()

    ordinary = graphql_blocking(schema, "{ someField old }", root=root).response()
    assert ordinary == {"data": {"someField": "x", "old": 1}}, ordinary

    try:
        result = graphql_blocking(schema, introspection_query(), root=root).response()
    except Exception as err:  # noqa
        problems.append(
            "%s: the introspection query raised %s: %s"
            % (label, type(err).__name__, err)
        )
        continue

    if result != reference:
        errors = result.get("errors") or []
        problems.append(
            "%s: introspection differs from the schema's content; data=%s, "
            "%d error(s), first: %s"
            % (
                label,
                "null" if result.get("data") is None else "<partial>",
                len(errors),
                errors[0]["message"] if errors else None,
            )
        )

    one = graphql_blocking(
        schema, '{ __type(name: "Query") { fields(includeDeprecated: true) { name isDeprecated args { name } } } }', root=root
    ).response()
    expected = graphql_blocking(
        reference_schema, '{ __type(name: "Query") { fields(includeDeprecated: true) { name isDeprecated args { name } } } }'
    ).response()
    if one != expected:
        problems.append("%s: __type(name: \"Query\") -> %s" % (label, dict(one)))

if problems:
    print("C15 violated: introspection is resolved by the user's default resolver")
    for p in problems:
        print(" -", p)
    print(
        "expected: for every valid schema (its default resolver included) the "
        "standard introspection query returns exactly the schema's content, "
        "as it does when schema.default_resolver is not set"
    )
    sys.exit(1)
print("ok")
