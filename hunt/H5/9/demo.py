"""
C14 (minor) -- extend_schema keeps the resolvers attached to the fields but
drops the schema's resolver registry (Schema.resolvers / .subscriptions /
.default_resolvers, i.e. what Schema.get_resolver / get_subscription /
merge_resolvers read), whereas Schema.clone and transform_schema carry it over.
"""
import sys

from py_gql.schema import ResolverMap
from py_gql.sdl import build_schema, extend_schema

source = build_schema(
    """
    type Query { a: Int b: B }
    type B { x: Int }
    type Subscription { s: Int }
    """
)


def resolve_a(*_, **__):
    return 1


def default_b(*_, **__):
    return 2


def subscribe_s(*_, **__):
    yield 3


source.register_resolver("Query", "a", resolve_a)
source.register_default_resolver("B", default_b)
source.register_subscription("Subscription", "s", subscribe_s)


def view(schema):
    return {
        "get_resolver(Query, a)": schema.get_resolver("Query", "a"),
        "get_resolver(B, x)": schema.get_resolver("B", "x"),
        "get_subscription(Subscription, s)": schema.get_subscription(
            "Subscription", "s"
        ),
        "field resolver Query.a": schema.get_type("Query").field_map["a"].resolver,
        "default resolver B": schema.get_type("B").default_resolver,
    }


def merged(schema):
    target = ResolverMap()
    target.merge_resolvers(schema)
    return {k: sorted(v) for k, v in target.resolvers.items() if v}, {
        k: sorted(v) for k, v in target.subscriptions.items() if v
    }


expected = view(source)
problems = []
for label, schema in (
    ("clone()", source.clone()),
    ("extend_schema(unrelated extension)", extend_schema(source, "extend type B { y: Int }")),
):
    got = view(schema)
    for key in expected:
        if got[key] is not expected[key]:
            problems.append("%s: %s is %r, was %r" % (label, key, got[key], expected[key]))
    if merged(schema) != merged(source):
        problems.append(
            "%s: merge_resolvers sees %r, source has %r"
            % (label, merged(schema), merged(source))
        )

if problems:
    print("C14 violated: registered resolvers are not preserved by extend_schema")
    for p in problems:
        print(" -", p)
    print("expected: the registry of the source schema, as after clone()")
    sys.exit(1)
print("ok")
