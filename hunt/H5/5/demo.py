"""
C20 -- a scalar implemented by a ScalarType subclass (the library's own
RegexType, or any user subclass overriding serialize / parse as the ScalarType
docstring recommends) is reported as a BREAKING "changed kind" against the very
same schema built from SDL.
"""
import sys

from py_gql.schema import (
    UUID,
    Argument,
    Field,
    Int,
    ObjectType,
    RegexType,
    ScalarType,
    Schema,
)
from py_gql.schema.differ import SchemaChangeSeverity, diff_schema
from py_gql.sdl import build_schema

SDL = """
scalar Email
scalar UUID
scalar Money
type Query { f(e: Email, u: UUID, m: Money): Int }
"""


class MoneyType(ScalarType):
    def __init__(self):
        super().__init__("Money", serialize=str, parse=str)

    def serialize(self, value):
        return "%.2f" % value

    def parse(self, value):
        return float(value)


released = build_schema(SDL)
current = build_schema(
    SDL, additional_types=[RegexType("Email", r".+@.+", description=None), UUID, MoneyType()]
)
assert released.to_string(include_descriptions=False) == current.to_string(
    include_descriptions=False
)

problems = []
for old, new, direction in (
    (released, current, "released SDL -> current"),
    (current, released, "current -> released SDL"),
):
    for change in diff_schema(old, new):
        problems.append(
            "%s: %s %s" % (direction, change.severity.name, change.message)
        )

breaking = list(
    diff_schema(released, current, min_severity=SchemaChangeSeverity.BREAKING)
)

if problems:
    print("C20 violated: structurally equal schemas report changes")
    print("  both schemas print to:\n    " + released.to_string().replace("\n", "\n    "))
    for p in problems:
        print(" -", p)
    print(
        "expected: nothing -- Email / UUID / Money are scalars in both schemas "
        "(introspection kind SCALAR); %d spurious BREAKING change(s)"
        % len(breaking)
    )
    sys.exit(1)
print("ok")
