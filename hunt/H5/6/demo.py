"""
C15 -- a numeric looking string default of a custom scalar which sits inside a
list or an input object is reported by introspection as a *number* literal
(`["12345"]` -> `[12345]`, `{zip: "12345"}` -> `{zip: 12345}`), which does not
parse back to the declared default (and is rejected by a scalar which only
accepts strings). The same default at the top level is reported correctly
(`"12345"`).
"""
import sys

from py_gql import graphql_blocking
from py_gql.lang import ast, parse_value
from py_gql.schema import ScalarType
from py_gql.sdl import build_schema
from py_gql.utilities import value_from_ast


def parse_zip_literal(node, variables):
    if not isinstance(node, ast.StringValue):
        raise ValueError("ZipCode must be a string, got %s" % type(node).__name__)
    return node.value


def parse_zip(value):
    if not isinstance(value, str):
        raise ValueError("ZipCode must be a string")
    return value


ZipCode = ScalarType(
    "ZipCode", serialize=str, parse=parse_zip, parse_literal=parse_zip_literal
)

schema = build_schema(
    """
    scalar ZipCode
    input Address { zip: ZipCode = "75001", ratio: ZipCode = "1.5" }
    type Query {
        direct(zip: ZipCode = "12345"): String
        inList(zips: [ZipCode!] = ["12345", "1e3"]): String
        inObject(address: Address = {zip: "12345"}): String
        fromInputDefault(address: Address = {}): String
    }
    """,
    additional_types=[ZipCode],
)

response = graphql_blocking(
    schema,
    '{ __type(name: "Query") { fields { name args { name defaultValue } } } }',
).response()
assert "errors" not in response, response

problems = []
for field in response["data"]["__type"]["fields"]:
    arg_def = schema.query_type.field_map[field["name"]].arguments[0]
    reported = field["args"][0]["defaultValue"]
    declared = arg_def.default_value
    try:
        back = value_from_ast(parse_value(reported), arg_def.type)
    except Exception as err:  # noqa
        problems.append(
            "Query.%s: declared %r, reported %s, which the type rejects: %s: %s"
            % (field["name"], declared, reported, type(err).__name__, err)
        )
        continue
    if back != declared:
        problems.append(
            "Query.%s: declared %r, reported %s, parses back to %r"
            % (field["name"], declared, reported, back)
        )
    else:
        print("   fine: Query.%s reported %s" % (field["name"], reported))

if problems:
    print("C15 violated: reported default values do not parse back to the declared defaults")
    for p in problems:
        print(" -", p)
    print(
        'expected: ["12345", "1e3"], {zip: "12345", ratio: "1.5"}, ... -- string '
        "literals, as for the top level default of Query.direct"
    )
    sys.exit(1)
print("ok")
