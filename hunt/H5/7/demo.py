"""
C14 / C15 -- an input object whose field of its own type (directly or through
another input object) has a non null default cannot be built from SDL, nor
added by an extension document: RecursionError.

    input In { a: Int, self: In = {a: 1, self: null} }

The schema is valid (finite default, nullable recursion); the code first
version validates, executes, is introspected and printed correctly -- but its
own printed SDL cannot be built again.
"""
import sys

from py_gql import graphql_blocking
from py_gql.schema import (
    Argument,
    Field,
    InputField,
    InputObjectType,
    Int,
    ObjectType,
    Schema,
)
from py_gql.sdl import build_schema, extend_schema

sys.setrecursionlimit(500)  # only to keep the traceback short

# Code first reference: everything works.
In = InputObjectType(
    "In",
    lambda: [
        InputField("a", Int),
        InputField("self", In, default_value={"a": 1, "self": None}),
    ],
)
reference = Schema(
    ObjectType(
        "Query",
        [
            Field(
                "f",
                Int,
                args=[Argument("i", In)],
                resolver=lambda *_, i=None: i["self"]["a"],
            )
        ],
    )
)
reference.validate()
assert graphql_blocking(reference, "{ f(i: {}) }").response() == {"data": {"f": 1}}
introspected = graphql_blocking(
    reference, '{ __type(name: "In") { inputFields { name defaultValue } } }'
).response()
assert introspected["data"]["__type"]["inputFields"][1] == {
    "name": "self",
    "defaultValue": "{a: 1, self: null}",
}
printed = reference.to_string()

problems = []


def attempt(label, fn):
    try:
        schema = fn()
        schema.validate()
    except RecursionError:
        problems.append("%s: RecursionError" % label)
    except Exception as err:  # noqa
        problems.append("%s: %s: %s" % (label, type(err).__name__, err))


attempt("build_schema(<printed SDL of the valid code first schema>)", lambda: build_schema(printed))
attempt(
    "build_schema, direct recursion",
    lambda: build_schema(
        "input In { a: Int, self: In = {a: 1, self: null} } type Query { f(i: In): Int }"
    ),
)
attempt(
    "build_schema, list of itself",
    lambda: build_schema(
        "input In { a: Int, l: [In!] = [{a: 1, l: []}] } type Query { f(i: In): Int }"
    ),
)
attempt(
    "build_schema, mutual recursion",
    lambda: build_schema(
        "input A { b: B = {x: 1, a: {b: null}} } input B { x: Int, a: A } "
        "type Query { f(i: A): Int }"
    ),
)
base = build_schema("type Query { f: Int }")
attempt(
    "extend_schema, extension document defining the input type",
    lambda: extend_schema(
        base,
        "input In { a: Int, self: In = {a: 1, self: null} } "
        "extend type Query { g(i: In): Int }",
    ),
)

if problems:
    print("C14 / C15 violated: valid schemas with a recursive input default cannot be built / extended")
    print("  SDL printed by the (valid, introspectable) code first schema:")
    print("    " + printed.strip().replace("\n", "\n    "))
    for p in problems:
        print(" -", p)
    print("expected: the schema, with In.self defaulting to {a: 1, self: null}")
    sys.exit(1)
print("ok")
