"""
C20 -- the sequence of changes reported by diff_schema depends on the order in
which the types (and fields) are *defined* in either schema, although the two
orderings describe the same schemas. (Only the set differences of union members
and directive locations were made deterministic.)
"""
import sys

from py_gql.schema.differ import diff_schema
from py_gql.sdl import build_schema

OLD_1 = """
type Query { a: A b: B }
type A { x: Int y: Int }
type B { x: Int y: Int }
enum E { P Q }
"""
# Same schema, definitions written in another order.
OLD_2 = """
enum E { Q P }
type B { y: Int x: Int }
type A { y: Int x: Int }
type Query { b: B a: A }
"""
NEW_1 = """
type Query { a: A b: B }
type A { x: Int }
type B { x: Int }
enum E { P }
type Z1 { x: Int }
type Z0 { x: Int }
"""
NEW_2 = """
type Z0 { x: Int }
type Z1 { x: Int }
enum E { P }
type B { x: Int }
type A { x: Int }
type Query { b: B a: A }
"""

assert not list(diff_schema(build_schema(OLD_1), build_schema(OLD_2)))
assert not list(diff_schema(build_schema(NEW_1), build_schema(NEW_2)))

results = {}
for old_label, old in (("OLD_1", OLD_1), ("OLD_2", OLD_2)):
    for new_label, new in (("NEW_1", NEW_1), ("NEW_2", NEW_2)):
        results[old_label, new_label] = [
            c.message for c in diff_schema(build_schema(old), build_schema(new))
        ]

reference = results["OLD_1", "NEW_1"]
different = {k: v for k, v in results.items() if v != reference}
assert all(sorted(v) == sorted(reference) for v in results.values())

if different:
    print("C20 violated: the reported changes depend on the order of the type definitions")
    print("  OLD_1 -> NEW_1:", reference)
    for (o, n), v in different.items():
        print("  %s -> %s:" % (o, n), v)
    print(
        "expected: the same result for the four pairs (OLD_1 / OLD_2 and "
        "NEW_1 / NEW_2 are the same schemas: diffing them reports nothing)"
    )
    sys.exit(1)
print("ok")
