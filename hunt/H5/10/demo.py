"""
C14 / C15 -- a schema directive whose definition is given inline
(``definition = Directive(...)``, the documented alternative to naming a
directive of the document) is added to ``schema.directives`` without
registering the types of its arguments: the resulting schema is not closed
(directive argument of type ``Mode``, no type ``Mode`` in the schema), the
introspection result is inconsistent with itself, the printed SDL cannot be
built -- and as soon as any other directive makes the schema heal itself, the
argument silently disappears from the directive instead.
"""
import sys

from py_gql import graphql_blocking
from py_gql.schema import Argument, Directive, EnumType, Int, unwrap_type
from py_gql.sdl import SchemaDirective, build_schema

Mode = EnumType("Mode", ["FAST", "SLOW"])


class Limit(SchemaDirective):
    definition = Directive(
        "limit",
        ["FIELD_DEFINITION"],
        args=[
            Argument("mode", Mode, default_value="FAST"),
            Argument("n", Int, default_value=3),
        ],
    )
    seen = []

    def on_field(self, field):
        Limit.seen.append(dict(self.args))
        return field


class Drop(SchemaDirective):
    definition = Directive("drop", ["FIELD_DEFINITION"])

    def on_field(self, field):
        return None


problems = []

# 1. only @limit is used
schema = build_schema(
    "type Query { a: Int @limit(mode: SLOW) b: Int }",
    schema_directives=[Limit, Drop],
)
schema.validate()
assert Limit.seen == [{"mode": "SLOW", "n": 3}]

for arg in schema.directives["limit"].arguments:
    named = unwrap_type(arg.type)
    if schema.types.get(named.name) is not named:
        problems.append(
            "not closed: @limit(%s:) is of type %s but schema.types.get(%r) is %r"
            % (arg.name, named.name, named.name, schema.types.get(named.name))
        )

result = graphql_blocking(
    schema,
    """{
        __schema {
            types { name }
            directives { name args { name type { kind name } } }
        }
        __type(name: "Mode") { name }
    }""",
).response()
assert "errors" not in result
listed = {t["name"] for t in result["data"]["__schema"]["types"]}
for directive in result["data"]["__schema"]["directives"]:
    for arg in directive["args"]:
        name = arg["type"]["name"]
        if name is not None and name not in listed:
            problems.append(
                "introspection: @%s(%s:) has type %s %s, which is not among "
                "__schema.types and __type(name: %r) is %r"
                % (
                    directive["name"],
                    arg["name"],
                    arg["type"]["kind"],
                    name,
                    name,
                    result["data"]["__type"],
                )
            )

printed = schema.to_string()
try:
    build_schema(printed)
except Exception as err:  # noqa
    problems.append(
        "the printed SDL cannot be built: %s: %s" % (type(err).__name__, err)
    )

# 2. same, but an unrelated directive (@drop on another field) makes the
#    schema heal its type references.
healed = build_schema(
    "type Query { a: Int @limit(mode: SLOW) b: Int @drop }",
    schema_directives=[Limit, Drop],
)
names = [a.name for a in healed.directives["limit"].arguments]
if names != ["mode", "n"]:
    problems.append(
        "with `b: Int @drop` in the document, @limit is left with the "
        "arguments %r (expected ['mode', 'n']): the `mode` argument has been "
        "silently removed" % names
    )

if problems:
    print("C14 / C15 violated: inline schema directive definitions are not closed over")
    for p in problems:
        print(" -", p)
    print(
        "expected: the enum Mode registered in schema.types (as Schema(..., "
        "directives=[...]) does for directive argument types), listed by "
        "introspection and printed, whatever other directives do"
    )
    sys.exit(1)
print("ok")
