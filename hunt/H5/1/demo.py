"""
C14 -- a default value written in an extension cannot use what the same
document adds to the enum / input object it is typed by.

    extend enum E { C }
    extend type Query { g(x: E = C): Int }

is a valid extension document (the extended schema is valid SDL), yet
extend_schema / build_schema raise UnknownEnumValue / InvalidValue: defaults are
coerced eagerly against the *un-extended* type object.
"""
import sys

from py_gql import graphql_blocking
from py_gql.sdl import build_schema, extend_schema

failures = []


def attempt(label, fn, check):
    try:
        schema = fn()
    except Exception as err:  # noqa
        failures.append(
            "%s: raised %s: %s" % (label, type(err).__name__, err)
        )
        return
    problem = check(schema)
    if problem:
        failures.append("%s: %s" % (label, problem))


BASE = """
enum E { A B }
input In { a: Int = 1 }
type Query { f(x: E = A): String }
"""

base = build_schema(BASE)


def arg_default(schema, field, arg):
    return schema.query_type.field_map[field].argument_map[arg].default_value


# 1. enum value added by the same extension document
attempt(
    "extend_schema, default uses the added enum value",
    lambda: extend_schema(
        base,
        """
        extend enum E { C }
        extend type Query { g(x: E = C): String }
        """,
    ),
    lambda s: None
    if arg_default(s, "g", "x") == "C"
    else "default is %r" % arg_default(s, "g", "x"),
)

# 2. input field added by the same extension document
attempt(
    "extend_schema, default uses the added input field",
    lambda: extend_schema(
        base,
        """
        extend input In { b: Int = 2 }
        extend type Query { h(x: In = {b: 3}): String }
        """,
    ),
    lambda s: None
    if arg_default(s, "h", "x") == {"a": 1, "b": 3}
    else "default is %r" % arg_default(s, "h", "x"),
)

# 3. same through build_schema (definition + extension in one document)
attempt(
    "build_schema, definition default uses the value of `extend enum`",
    lambda: build_schema(
        """
        enum E { A B }
        type Query { f(x: E = C): String }
        extend enum E { C }
        """
    ),
    lambda s: None
    if arg_default(s, "f", "x") == "C"
    else "default is %r" % arg_default(s, "f", "x"),
)

# 4. types which are entirely new in the extension document
attempt(
    "extend_schema, new enum + its extension + default",
    lambda: extend_schema(
        base,
        """
        enum N { P }
        extend enum N { Q }
        extend type Query { n(x: N = Q): String }
        """,
    ),
    lambda s: None,
)

# 5. the input field default of an extension itself
attempt(
    "extend_schema, input field default uses the added enum value",
    lambda: extend_schema(
        base,
        """
        extend enum E { C }
        extend input In { e: E = C }
        """,
    ),
    lambda s: None,
)

# Control: the same schema written without `extend` is accepted, so the
# documents above describe valid schemas.
control = build_schema(
    """
    enum E { A B C }
    input In { a: Int = 1, b: Int = 2 }
    type Query { f(x: E = A): String g(x: E = C): String h(x: In = {b: 3}): String }
    """
)
control.validate()
assert graphql_blocking(control, "{ __typename }").response() == {
    "data": {"__typename": "Query"}
}

if failures:
    print("C14 violated: valid extension documents are refused")
    for f in failures:
        print(" -", f)
    print(
        "expected: the extended schema, with g(x: E = C) / h(x: In = {b: 3}) "
        "coerced against the EXTENDED types (the control schema without "
        "`extend` builds fine)"
    )
    sys.exit(1)

print("ok")
