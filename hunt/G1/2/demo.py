"""C02: OperationDefinition nodes written with an operation keyword carry a span (loc) but no source,
so their span cannot be resolved to text (every other node kind, and the `{...}` short form, carries it)."""
import sys
from py_gql.lang import parse, ast
from py_gql.lang.parser import Parser
from py_gql.lang.token import SOF, EOF

bad = 0
for src in ["query { a }", "query Q($v: Int) @d { a }", "mutation { a }", "subscription S { a }", "{ a }"]:
    doc = parse(src)
    op = doc.definitions[0]
    inner = op.selection_set
    print("%-28r loc=%r source=%r (selection set source=%r)" % (src, op.loc, op.source, inner.source))
    if op.loc is not None and op.source is None:
        bad += 1
        print("   -> span present but spanned text unavailable: node.source[loc[0]:loc[1]] is impossible")
    else:
        txt = op.source[op.loc[0]:op.loc[1]]
        p = Parser(txt, no_location=True); p.expect(SOF); again = p.parse_operation_definition(); p.expect(EOF)

# user-visible consequence: errors located on such nodes lose their "locations"
from py_gql import build_schema, process_graphql_query
schema = build_schema("type Query { a: Int }")
res = process_graphql_query(schema, "query A { a }\nquery A { a }").response()
print(res)
if "locations" not in res["errors"][0]:
    bad += 1
    print("   -> 'Duplicate operation' error has no locations although the parser was run with positions enabled")
res2 = process_graphql_query(schema, "{ a }\n{ a }").response()
print(res2, " <- same kind of error on short-form operations keeps its locations")

if bad:
    sys.exit(1)
print("OK")
