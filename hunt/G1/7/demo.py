"""C01 (borderline): a number directly followed by a Name is two tokens in the June-2018 lexical grammar
(no lookahead restriction before the October-2021 edition), yet the lexer rejects it."""
import sys
from py_gql.lang import parse
from py_gql.lang.parser import parse_value
from py_gql.exc import GraphQLSyntaxError

cases = [
    (parse, "{ f(a: 1b: 2) }", "{ f(a: 1 b: 2) }"),
    (parse, "{ f(a: 1.5b: 2) }", "{ f(a: 1.5 b: 2) }"),
    (parse, "query ($v: Int = 0x: Int) { a }".replace("0x", "0$x"), None),   # control: `$` is fine
    (parse_value, "[1a]", "[1 a]"),
    (parse_value, "{a: 0b: 1e3c: 2}", "{a: 0 b: 1e3 c: 2}"),
]
bad = 0
for fn, text, spaced in cases:
    try:
        got = fn(text, no_location=True)
    except GraphQLSyntaxError as err:
        bad += 1
        print("REJECTED %r (%s at %d); with one blank inserted, %r is accepted" % (text, type(err).__name__, err.position, spaced))
        fn(spaced)
        continue
    if spaced is not None and got != fn(spaced, no_location=True):
        bad += 1; print("DIFFERENT TREE", text)
sys.exit(1 if bad else 0)
