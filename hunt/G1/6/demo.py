"""C01 (borderline): texts that derive from the literal June-2018 grammar but are rejected, because the parser
commits greedily to an optional `{ ... }` body (the grammar has no lookahead restriction there in June 2018)."""
import sys
from py_gql.lang import parse
from py_gql.exc import GraphQLSyntaxError

# Each text is  <TypeSystemDefinition without body>  <OperationDefinition in short form>,
# i.e. Document : Definition+ with two definitions, both derivable on their own:
parts = [
    ("type A", "{ a }"),
    ("type A implements B", "{ a }"),
    ("input I", "{ a }"),
    ("interface I @d", "{ a }"),
    ("extend type A @d", "{ a }"),
    ("extend schema @d", "{ a }"),
    ("enum E", "{ a: b }"),
]
bad = 0
for first, second in parts:
    for piece in (first, second):
        parse(piece, allow_type_system=True)           # each half is accepted on its own
    text = first + "\n" + second
    try:
        doc = parse(text, allow_type_system=True)
        print("accepted %r (%d definitions)" % (text, len(doc.definitions)))
    except GraphQLSyntaxError as err:
        bad += 1
        print("REJECTED %r: %s -- although it is Definition Definition, each accepted separately" % (text, err.message))
sys.exit(1 if bad else 0)
