"""C02: a \\uXXXX\\uXXXX surrogate-pair escape (the only way to escape a non-BMP character in June-2018
GraphQL, and what every ASCII-safe JSON encoder emits) is decoded as two lone surrogate code points
instead of the character it denotes."""
import sys, json
from py_gql.lang import parse, print_ast
from py_gql.lang.parser import parse_value

literal = json.dumps("\U0001F600")           # '"\\ud83d\\ude00"'  -- a valid GraphQL StringValue
node = parse_value(literal)
print("literal         :", literal)
print("decoded value   :", ascii(node.value), "len", len(node.value))
print("written raw     :", ascii(parse_value('"\U0001F600"').value), "len", len(parse_value('"\U0001F600"').value))

problems = []
if node.value != "\U0001F600":
    problems.append("value %s != %s: the escaped and the raw spelling of the same string decode differently"
                    % (ascii(node.value), ascii("\U0001F600")))
try:
    node.value.encode("utf-8")
except UnicodeEncodeError as err:
    problems.append("decoded value is not a well-formed Unicode string: %s" % err)
try:
    print_ast(parse("{ f(s: %s) }" % literal)).encode("utf-8")
except UnicodeEncodeError as err:
    problems.append("print_ast() of the parsed document cannot be encoded to UTF-8: %s" % err)

# end to end
from py_gql import build_schema, graphql_blocking
schema = build_schema("type Query { echo(s: String): String }")
@schema.resolver("Query.echo")
def echo(root, ctx, info, s=None):
    return s
resp = graphql_blocking(schema, "{ echo(s: %s) }" % literal).response()
try:
    json.dumps(resp, ensure_ascii=False).encode("utf-8")
except UnicodeEncodeError as err:
    problems.append("echoing the argument yields a response that cannot be sent as UTF-8 JSON: %s" % err)

for p in problems:
    print("FAIL:", p)
sys.exit(1 if problems else 0)
