"""C01: a syntax error cannot be rendered as a (specification-shaped) response-error dictionary:
GraphQLSyntaxError.to_dict() emits the key "columne" instead of "column"."""
import sys
from py_gql.lang import parse
from py_gql.exc import GraphQLSyntaxError, GraphQLLocatedError

try:
    parse("{ a\n  b(x: ) }")
except GraphQLSyntaxError as err:
    d = err.to_dict()
print("syntax error dict :", {k: v for k, v in d.items() if k != "message"})
located = GraphQLLocatedError("x", [parse("{ a }").definitions[0]]).to_dict()
print("located error dict:", located)

loc = d["locations"][0]
if set(loc) != {"line", "column"}:
    print("FAIL: location keys are %r; the June-2018 response format (7.1.2 Errors) and the library's own "
          "GraphQLLocatedError use {'line', 'column'}" % sorted(loc))
    sys.exit(1)
print("OK")
