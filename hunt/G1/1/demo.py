"""C03: print_ast(parse(doc)) is not re-parseable / not the identity for mixed documents in which
a brace-less type-system definition is followed by an anonymous `query` operation."""
import sys
from py_gql.lang import parse, print_ast
from py_gql.exc import GraphQLSyntaxError

failures = 0
for src in [
    "type A query { a }",                      # re-parse raises
    "input I query { a }",                     # re-parse raises
    "extend schema @d query { a }",            # re-parse raises
    "enum E query { a }",                      # re-parse silently gives another tree
    "extend enum E @d query { a }",            # idem
    "interface I query { a: b }",              # idem (alias read as a field definition)
    "extend schema @d query { query: Q }",     # idem (aliased field read as operation type)
]:
    t1 = parse(src, allow_type_system=True, no_location=True)
    printed = print_ast(t1)
    try:
        t2 = parse(printed, allow_type_system=True, no_location=True)
    except GraphQLSyntaxError as err:
        failures += 1
        print("FAIL %r\n  printed as %r\n  which the parser rejects: %s" % (src, printed, err.message))
        continue
    if t1 != t2:
        failures += 1
        print("FAIL %r\n  printed as %r\n  re-parses to a different tree: %d definitions (%s) instead of %d (%s)" % (
            src, printed,
            len(t2.definitions), [type(d).__name__ for d in t2.definitions],
            len(t1.definitions), [type(d).__name__ for d in t1.definitions]))

if failures:
    print("\n%d accepted documents violate parse(print(tree)) == tree" % failures)
    sys.exit(1)
print("OK")
