"""C03: print_ast raises RecursionError for trees the parser itself produced without trouble
(nesting well inside the parser's own recursion budget)."""
import sys
from py_gql.lang import parse, print_ast
from py_gql.lang.parser import parse_value, parse_type

print("recursion limit:", sys.getrecursionlimit())
bad = 0
for label, src, fn in [
    ("selection sets, depth 200", "{ a " * 200 + "}" * 200, parse),
    ("list value, depth 280", "[" * 280 + "]" * 280, parse_value),
    ("object value, depth 230", "{a:" * 230 + "1" + "}" * 230, parse_value),
]:
    tree = fn(src)                       # accepted: no RecursionError, no syntax error
    try:
        out = print_ast(tree)
        assert fn(out, no_location=True) == fn(src, no_location=True)
        print("ok  ", label)
    except RecursionError as err:
        bad += 1
        print("FAIL %s: parser accepted the text, print_ast raised RecursionError (%s)" % (label, err))
sys.exit(1 if bad else 0)
