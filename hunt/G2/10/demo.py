"""
A moderately deep (but valid) query makes the entry point raise RecursionError
instead of answering: from ~150 levels in validation, from ~300 levels in the parser.
"""
import json
import sys

from py_gql import build_schema, graphql_blocking

schema = build_schema("type Query { o: Query, v: Int, a(x: [[[[Int]]]]): Int }")
schema.register_resolver("Query", "o", lambda root, ctx, info: {"v": 1})

bad = 0
for depth in (100, 150, 300):
    doc = "{ " + "o { " * depth + "v" + " }" * depth + " }"
    try:
        resp = graphql_blocking(schema, doc).response()
        json.dumps(resp)
        print("OK  selection depth %4d -> response with keys %s" % (depth, sorted(resp)))
    except RecursionError as err:
        import traceback
        frame = [f for f in traceback.extract_tb(err.__traceback__) if "py_gql" in f.filename][-1]
        bad += 1
        print("BAD selection depth %4d -> RecursionError raised in %s:%s" % (depth, frame.filename.split("py_gql/")[-1], frame.name))

doc = "{ a(x: " + "[" * 300 + "1" + "]" * 300 + ") }"
try:
    resp = graphql_blocking(schema, doc).response()
    print("OK  list literal depth 300 -> %s" % sorted(resp))
except RecursionError as err:
    bad += 1
    print("BAD list literal depth 300 -> RecursionError")

if bad:
    print("\nC10: every request text must yield a result (data, or a syntax/validation error entry); "
          "RecursionError escapes the top-level entry points instead.")
sys.exit(1 if bad else 0)
