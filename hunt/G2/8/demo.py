"""
A resolver raising ResolverError with an empty message produces a response error
without the mandatory "message" key.
"""
import json
import sys

from py_gql import build_schema, graphql_blocking, process_graphql_query
from py_gql.exc import ResolverError

schema = build_schema("type Query { a: Int }")


def a(root, ctx, info):
    raise ResolverError("", extensions={"code": "NOT_FOUND"})


schema.register_resolver("Query", "a", a)

bad = 0
for name, fn in (("graphql_blocking", graphql_blocking), ("process_graphql_query", process_graphql_query)):
    resp = fn(schema, "{ a }").response()
    print(name, "->", json.dumps(resp))
    for err in resp["errors"]:
        if not isinstance(err.get("message"), str):
            bad += 1
            print("BAD: error entry has no string `message`: %s" % err)
if bad:
    print('\nC10 / spec 7.1.2: every error is a map with a key `message` holding a string, e.g. '
          '{"message": "", "locations": [{"line": 1, "column": 3}], "path": ["a"], "extensions": {"code": "NOT_FOUND"}}')
sys.exit(1 if bad else 0)
