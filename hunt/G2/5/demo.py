"""
AsyncIORuntime decides "is this value awaitable?" through a process-wide cache keyed
by type(value).  Plain generators and generator-based coroutines (@types.coroutine)
share the type `generator`, so whichever is seen FIRST in the process decides how all
later ones are treated - across requests and even across schemas.
"""
import asyncio
import json
import subprocess
import sys

CHILD = r'''
import asyncio, json, sys, types
from py_gql import build_schema, process_graphql_query
from py_gql.execution.runtime import AsyncIORuntime

def xs(root, ctx, info):
    return (i for i in range(3))          # any iterable is fine for a list field

@types.coroutine
def n(root, ctx, info):                   # generator based coroutine: a legal awaitable
    yield from asyncio.sleep(0).__await__()
    return 42

async def run(doc):
    schema = build_schema("type Query { xs: [Int], n: Int }")
    schema.register_resolver("Query", "xs", xs)
    schema.register_resolver("Query", "n", n)
    rt = AsyncIORuntime(execute_blocking_functions_in_thread=False)
    try:
        return (await process_graphql_query(schema, doc, runtime=rt)).response()
    except Exception as err:
        return "RAISED %s: %s" % (type(err).__name__, err)

async def main():
    print(json.dumps([[d, await run(d)] for d in sys.argv[1:]]))
asyncio.run(main())
'''


def serve(*docs):
    out = subprocess.run([sys.executable, "-W", "ignore", "-c", CHILD, *docs], capture_output=True, text=True)
    line = [l for l in out.stdout.splitlines() if l.startswith("[")][-1]
    return dict(map(tuple, json.loads(line)))


alone_xs = serve("{ xs }")["{ xs }"]
alone_n = serve("{ n }")["{ n }"]
print("fresh process, { xs } alone :", alone_xs)
print("fresh process, { n } alone  :", alone_n)

bad = 0
a = serve("{ xs }", "{ n }")
print("process A, { xs } then { n }:", a)
b = serve("{ n }", "{ xs }")
print("process B, { n } then { xs }:", b)
for name, got in (("A", a), ("B", b)):
    if got["{ xs }"] != alone_xs or got["{ n }"] != alone_n:
        bad += 1
        print("BAD: in process %s an answer differs from the answer the same request gets when served first" % name)

if bad:
    print("\nC04/C08: the result must not depend on requests previously served; expected {xs: [0, 1, 2]} and {n: 42} in any order.")
sys.exit(1 if bad else 0)
