"""
A mutation with a few hundred top-level fields: the optimised BlockingExecutor answers,
the generic Executor (the default executor_cls of process_graphql_query!) dies with
RecursionError on the blocking runtime and on the asyncio runtime with plain resolvers.
"""
import asyncio
import sys

from py_gql import build_schema, process_graphql_query
from py_gql.execution import BlockingExecutor, Executor
from py_gql.execution.runtime import AsyncIORuntime

N = 400
counter = {"n": 0}


def inc(root, ctx, info):
    counter["n"] += 1
    return counter["n"]


schema = build_schema("type Query { a: Int } type Mutation { inc: Int }")
schema.register_resolver("Mutation", "inc", inc)
doc = "mutation Bulk { " + " ".join("op%d: inc" % i for i in range(N)) + " }"


def run(label):
    counter["n"] = 0
    try:
        if label == "BlockingExecutor":
            res = process_graphql_query(schema, doc, executor_cls=BlockingExecutor)
        elif label == "Executor + BlockingRuntime (default)":
            res = process_graphql_query(schema, doc)
        else:
            async def go():
                rt = AsyncIORuntime(execute_blocking_functions_in_thread=False)
                return await process_graphql_query(schema, doc, runtime=rt)
            res = asyncio.run(go())
        data = res.response()["data"]
        return "data: op0=%s ... op%d=%s, %d keys" % (data["op0"], N - 1, data["op%d" % (N - 1)], len(data))
    except RecursionError as err:
        return "RAISED RecursionError after %d of %d mutation fields had run" % (counter["n"], N)


outs = {}
for label in ["BlockingExecutor", "Executor + BlockingRuntime (default)", "Executor + AsyncIORuntime"]:
    outs[label] = run(label)
    print("%-38s -> %s" % (label, outs[label]))

bad = len(set(outs.values())) != 1
if bad:
    print("\nC08/C09: all configurations must give the same data (op0=1 ... op%d=%d); the generic executor "
          "recurses once per top-level mutation field and overflows the stack (limit reached near 331 fields), "
          "leaving the side effects of the first fields applied and no response." % (N - 1, N))
sys.exit(1 if bad else 0)
