"""
A (valid) subscription operation sent to the request entry points raises RuntimeError
instead of producing an error response; started instrumentation stages are never closed.
Related: subscribe() fires on_execution_start before refusing an operation and never
fires on_execution_end.
"""
import asyncio
import json
import sys

from py_gql import build_schema, graphql, graphql_blocking
from py_gql.execution import Instrumentation, subscribe
from py_gql.execution.runtime import AsyncIORuntime
from py_gql.lang import parse

schema = build_schema("type Query { a: Int } type Subscription { tick: Int, tock: Int }")


async def ticks(root, ctx, info):
    for i in range(2):
        yield {"tick": i}


schema.register_subscription("Subscription", "tick", ticks)


class Rec(Instrumentation):
    def __init__(self):
        self.ev = []

    def on_query_start(self):
        self.ev.append("query+")

    def on_query_end(self):
        self.ev.append("query-")

    def on_execution_start(self):
        self.ev.append("execution+")

    def on_execution_end(self):
        self.ev.append("execution-")


bad = 0
# document with a query and a subscription, client selects the subscription by name
doc = "query Q { a } subscription S { tick }"
for name in ("graphql_blocking", "graphql"):
    rec = Rec()
    try:
        if name == "graphql_blocking":
            res = graphql_blocking(schema, doc, operation_name="S", instrumentation=rec)
        else:
            res = asyncio.run(graphql(schema, doc, operation_name="S", instrumentation=rec))
        print("OK ", name, json.dumps(res.response()), rec.ev)
    except Exception as err:  # noqa
        bad += 1
        print("BAD %s raised %s: %s; hooks %s" % (name, type(err).__name__, err, rec.ev))


async def refused():
    rec = Rec()
    try:
        await subscribe(schema, parse("subscription { tick tock }"), runtime=AsyncIORuntime(), instrumentation=rec)
    except Exception as err:  # noqa
        print("subscribe() refusal: %s: %s; hooks %s" % (type(err).__name__, err, rec.ev))
    return rec.ev


ev = asyncio.run(refused())
if ev.count("execution+") != ev.count("execution-"):
    bad += 1
    print("BAD subscribe(): on_execution_start without on_execution_end")

if bad:
    print("\nC10/C16: a request failing at operation selection must return a result "
          "({'errors': [{'message': ...}], 'data': null} like an unknown operation name does) and close the query stage.")
sys.exit(1 if bad else 0)
