"""
A *valid* operation with an *accepted* variable assignment makes the top-level
entry points raise instead of returning a response:

    query ($v: Boolean = true) { a @skip(if: $v) b }      variables: {"v": null}

`$v` is nullable, so an explicit null is accepted by variable coercion; the
variable may be used in the `Boolean!` position because it has a default value
(June 2018 "VariablesInAllowedPositions"), so validation passes.
"""
import asyncio
import json
import sys

from py_gql import build_schema, graphql, graphql_blocking
from py_gql.execution import Instrumentation

schema = build_schema("type Query { a: Int, b: Int, o: Query }")
schema.register_resolver("Query", "o", lambda root, ctx, info: {"a": 1})


class Rec(Instrumentation):
    def __init__(self):
        self.ev = []

    def on_query_start(self):
        self.ev.append("query+")

    def on_query_end(self):
        self.ev.append("query-")

    def on_execution_start(self):
        self.ev.append("execution+")

    def on_execution_end(self):
        self.ev.append("execution-")


bad = 0
for doc in [
    "query ($v: Boolean = true) { a @skip(if: $v) b }",
    "query ($v: Boolean = true) { b o { a @include(if: $v) } }",
    "query ($v: Boolean = true) { b ... @include(if: $v) { a } }",
]:
    for name in ("graphql_blocking", "graphql (asyncio)"):
        rec = Rec()
        try:
            if name == "graphql_blocking":
                res = graphql_blocking(schema, doc, variables={"v": None}, root={"a": 1, "b": 2}, instrumentation=rec)
            else:
                res = asyncio.run(graphql(schema, doc, variables={"v": None}, root={"a": 1, "b": 2}, instrumentation=rec))
            print("OK  %-18s %s -> %s" % (name, doc, json.dumps(res.response())))
        except Exception as err:  # noqa
            bad += 1
            print("BAD %-18s %s\n      raised %s: %s\n      hooks: %s" % (name, doc, type(err).__name__, err, rec.ev))

if bad:
    print(
        "\nC10: every request must return a well-formed result (here: an error entry, with data null or the "
        "field omitted); instead the entry point raised CoercionError and the query/execution end hooks never fired."
    )
sys.exit(1 if bad else 0)
