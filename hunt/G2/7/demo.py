"""
CollectFields must visit a named fragment once per selection set (visitedFragments).
py_gql loses the visited set whenever it is still empty when passed down into an
inline fragment / fragment, so a fragment spread inside an inline fragment and again
next to it is collected twice: the field's node list contains the same node twice,
visible as duplicated `locations` in the non-null error and as duplicated
ResolveInfo.nodes.
"""
import json
import sys

from py_gql import build_schema, graphql_blocking

schema = build_schema("type Query { n: Int!, o: Query }")
seen_nodes = []


def n(root, ctx, info):
    seen_nodes.append(list(info.nodes))
    return None  # null in a non-nullable position


schema.register_resolver("Query", "n", n)

doc = """{
  ... { ...F }
  ...F
}
fragment F on Query { n }
"""
res = graphql_blocking(schema, doc)
resp = res.response()
print(json.dumps(resp, indent=1))
errors = resp["errors"]
nodes = seen_nodes[0]
print("ResolveInfo.nodes: %d node(s), distinct objects: %d" % (len(nodes), len({id(x) for x in nodes})))

bad = 0
want = [{"line": 5, "column": 23}]
if errors[0]["locations"] != want:
    bad += 1
    print("BAD: error locations %s, expected the single field location %s" % (errors[0]["locations"], want))
if len(nodes) != 1:
    bad += 1
    print("BAD: field `n` was collected %d times although fragment F may only be visited once" % len(nodes))

# control: same document without the wrapping inline fragment behaves
res2 = graphql_blocking(schema, "{\n  ...F\n  ...F\n}\nfragment F on Query { n }\n")
print("control `{ ...F ...F }` locations:", res2.response()["errors"][0]["locations"])
sys.exit(1 if bad else 0)
