"""
ResolverError raised while the resolved value is being *completed* (after the
resolver returned): e.g. a generator resolver for a list field that raises
ResolverError while it is iterated, or a resolve_type callback raising it.

- BlockingExecutor (graphql_blocking): the ResolverError escapes the whole request
- generic Executor (all runtimes): turned into a field error, but on_field_end fires twice
"""
import asyncio
import json
import sys

from py_gql import build_schema, graphql_blocking, process_graphql_query
from py_gql.exc import ResolverError
from py_gql.execution import BlockingExecutor, Executor, Instrumentation
from py_gql.execution.runtime import AsyncIORuntime, ThreadPoolRuntime

SDL = """
type Query { before: Int, items: [Int], after: Int }
"""


def items(root, ctx, info):
    # generator resolver: the ResolverError is raised lazily, during iteration
    yield 1
    raise ResolverError("backend went away")


class Rec(Instrumentation):
    def __init__(self):
        self.ev = []

    def on_field_start(self, root, ctx, info):
        self.ev.append("+" + ".".join(map(str, info.path)))

    def on_field_end(self, root, ctx, info):
        self.ev.append("-" + ".".join(map(str, info.path)))


def run(label):
    schema = build_schema(SDL)
    schema.register_resolver("Query", "items", items)
    rec = Rec()
    kw = dict(root={"before": 1, "after": 2}, instrumentation=rec)
    doc = "{ before items after }"
    try:
        if label == "blocking-executor":
            res = process_graphql_query(schema, doc, executor_cls=BlockingExecutor, **kw)
        elif label == "generic/blocking-runtime":
            res = process_graphql_query(schema, doc, executor_cls=Executor, **kw)
        elif label == "generic/threadpool":
            res = process_graphql_query(schema, doc, runtime=ThreadPoolRuntime(max_workers=2), **kw).result(5)
        else:
            async def go():
                return await process_graphql_query(schema, doc, runtime=AsyncIORuntime(), **kw)
            res = asyncio.run(go())
        out = json.dumps(res.response(), sort_keys=True)
    except Exception as err:  # noqa
        out = "RAISED %s: %s" % (type(err).__name__, err)
    return out, rec.ev


expected = json.dumps(
    {
        "data": {"before": 1, "items": None, "after": 2},
        "errors": [{"message": "backend went away", "locations": [{"line": 1, "column": 10}], "path": ["items"]}],
    },
    sort_keys=True,
)

bad = 0
outs = set()
for label in ["blocking-executor", "generic/blocking-runtime", "generic/threadpool", "generic/asyncio"]:
    out, ev = run(label)
    outs.add(out)
    print("%-26s -> %s" % (label, out))
    print("%-26s    field hooks: %s" % ("", ev))
    if out != expected:
        bad += 1
        print("   !! expected (C04): %s" % expected)
    if ev.count("-items") != 1:
        bad += 1
        print("   !! on_field_end fired %d times for 'items' (C16 demands exactly once)" % ev.count("-items"))

if len(outs) != 1:
    bad += 1
    print("!! C08: results differ between executor/runtime configurations")

sys.exit(1 if bad else 0)
