"""
A JSON variables payload containing a large integer for a Float variable makes
the entry points raise OverflowError instead of returning a coercion error.
"""
import json
import sys

from py_gql import build_schema, graphql_blocking

schema = build_schema(
    """
    input Range { min: Float, max: Float }
    type Query { scale(by: Float, r: Range, all: [Float]): String }
    """
)
schema.register_resolver("Query", "scale", lambda root, ctx, info, **kw: repr(sorted(kw)))

# what a HTTP layer would hand over after json.loads(body)["variables"]
payloads = [
    ("query ($v: Float) { scale(by: $v) }", '{"v": 1%s}' % ("0" * 400)),
    ("query ($v: Range) { scale(r: $v) }", '{"v": {"max": 1%s}}' % ("0" * 400)),
    ("query ($v: [Float]) { scale(all: $v) }", '{"v": [1, 1%s]}' % ("0" * 400)),
]

bad = 0
for doc, raw in payloads:
    variables = json.loads(raw)
    try:
        res = graphql_blocking(schema, doc, variables=variables)
        print("OK ", doc, "->", json.dumps(res.response())[:160])
    except Exception as err:  # noqa
        bad += 1
        print("BAD", doc, "variables=%s... -> raised %s: %s" % (raw[:30], type(err).__name__, err))

# reference: the same magnitude as a float literal or JSON float is reported properly
res = graphql_blocking(schema, "query ($v: Float) { scale(by: $v) }", variables=json.loads('{"v": 1e999}'))
print("reference (1e999):", json.dumps(res.response())[:200])

if bad:
    print(
        "\nC10: a request failing at variable coercion must still return a result with a located error "
        "(as it does for 1e999 / NaN); OverflowError escapes instead."
    )
sys.exit(1 if bad else 0)
