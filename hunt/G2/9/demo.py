"""
Documents using CR (U+000D) alone as line terminator (a LineTerminator per spec 2.1.3,
and honoured as such by py_gql's own lexer: it ends `#` comments) get error locations
computed as if the whole document were a single line.
"""
import json
import sys

from py_gql import build_schema, graphql_blocking
from py_gql.exc import ResolverError

schema = build_schema("type Query { s: String, a: Int }")


def a(root, ctx, info):
    raise ResolverError("boom")


schema.register_resolver("Query", "a", a)

bad = 0


def locations(doc):
    resp = graphql_blocking(schema, doc, root={"s": "x"}).response()
    json.dumps(resp)
    out = []
    for e in resp["errors"]:
        for l in e.get("locations", []):
            out.append((l["line"], l.get("column", l.get("columne"))))
    return resp, out


# the lexer treats CR as a line terminator: the comment ends at \r and `a` is a field
resp, _ = locations("{ s # comment\r a }")
print("lexer honours CR as line terminator:", "a" in resp["data"])

for title, lf_doc in [
    ("field error    ", "{\n  s\n  a\n}"),
    ("validation err ", "{\n  s\n  zz\n}"),
    ("syntax error   ", "{\n  s\n  a(\n}"),
]:
    want = locations(lf_doc)[1]
    for eol_name, eol in (("CRLF", "\r\n"), ("CR", "\r")):
        got = locations(lf_doc.replace("\n", eol))[1]
        ok = got == want
        bad += not ok
        print("%s %s %-4s locations (line, column): observed %s expected %s" % ("OK " if ok else "BAD", title, eol_name, got, want))

if bad:
    print("\nC10: locations are 1-based line and column inside the submitted document; with CR line "
          "terminators every error is reported on line 1 with a column past the end of that line.")
sys.exit(1 if bad else 0)
