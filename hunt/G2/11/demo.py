"""
Result coercion of Int lets Python booleans through unchanged: an Int field answers
JSON `true` / `false`, and a [Int] list answers a mix of numbers and booleans.
"""
import json
import sys

from py_gql import build_schema, graphql_blocking

schema = build_schema("type Query { count: Int, counts: [Int!] }")
schema.register_resolver("Query", "count", lambda root, ctx, info: any([1]))        # a bool
schema.register_resolver("Query", "counts", lambda root, ctx, info: [2, True, False])

text = graphql_blocking(schema, "{ count counts }").json()
print("response:", text)
data = json.loads(text)["data"]
bad = 0
for v in [data["count"]] + data["counts"]:
    if type(v) is not int:
        bad += 1
        print("BAD: Int position holds %r (%s), the specification requires an integer (graphql-js: true -> 1)" % (v, type(v).__name__))
sys.exit(1 if bad else 0)
