"""
Coerced argument values are shared objects:
 (a) schema default values ([..] / {..}) are handed to resolvers by reference, so
     what one request's resolver does to "its" argument is visible to every later
     request served by the same schema object;
 (b) inside one request the coerced arguments of a field node are computed once and
     the same list/dict objects are passed to every invocation of that field
     (one per list item), and the same variable value object goes to every field.
"""
import json
import sys

from py_gql import build_schema, graphql_blocking

schema = build_schema(
    """
    input Filter { tags: [String] = ["x"] }
    type Item { label(ids: [Int]): String }
    type Query {
        page(ids: [Int] = [1, 2]): String
        search(f: Filter): String
        items: [Item]
    }
    """
)


def page(root, ctx, info, ids=None):
    ids.append(99)  # the resolver post-processes *its own* argument list
    return json.dumps(ids)


def search(root, ctx, info, f=None):
    f["tags"].append("archived")
    return json.dumps(f, sort_keys=True)


schema.register_resolver("Query", "page", page)
schema.register_resolver("Item", "label", page)
schema.register_resolver("Query", "search", search)
schema.register_resolver("Query", "items", lambda root, ctx, info: [{}, {}, {}])

bad = 0


def check(title, got, want):
    global bad
    ok = got == want
    bad += not ok
    print("%s %s\n    observed: %s\n    expected: %s" % ("OK " if ok else "BAD", title, got, want))


# (a) across requests
r = [graphql_blocking(schema, "{ page }").response()["data"]["page"] for _ in range(3)]
check("same request `{ page }` served three times", r, ["[1, 2, 99]"] * 3)

r = [graphql_blocking(schema, "{ search(f: {}) }").response()["data"]["search"] for _ in range(2)]
check("same request `{ search(f: {}) }` served twice", r, ['{"tags": ["x", "archived"]}'] * 2)

# (b) inside one request
r = [i["label"] for i in graphql_blocking(schema, "{ items { label(ids: [7]) } }").response()["data"]["items"]]
check("one literal argument, three list items", r, ["[7, 99]"] * 3)

r = graphql_blocking(schema, "query ($v: [Int]) { a: page(ids: $v) b: page(ids: $v) }", variables={"v": [5]}).response()["data"]
check("one variable used by two fields", dict(r), {"a": "[5, 99]", "b": "[5, 99]"})

if bad:
    print("\nC04: the result must not depend on requests previously served by the same schema object, "
          "and each field is executed with its own coerced argument values.")
sys.exit(1 if bad else 0)
