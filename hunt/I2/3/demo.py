"""
C04 / C10: a resolver that is a perfectly legal callable but not hashable (a
dataclass instance - or any object defining __eq__ - with a __call__ method)
is accepted by Schema.validate() but makes EVERY request that selects the field
raise "TypeError: unhashable type" out of graphql_blocking / graphql /
process_graphql_query, because Executor.field_resolver uses the resolver object
as a dictionary key of a per-request cache.

Run: PYTHONPATH=/repo/src /venv/bin/python demo.py   (exit code 1 = defect shown)
"""
import asyncio
import json
import sys
from dataclasses import dataclass

from py_gql import build_schema, graphql, graphql_blocking, process_graphql_query
from py_gql.execution.runtime import ThreadPoolRuntime


@dataclass
class Constant:
    """A small reusable resolver object (dataclasses define __eq__, hence are unhashable)."""

    value: int

    def __call__(self, root, ctx, info):
        return self.value


schema = build_schema("type Query { a: Int, b: Int }")
schema.register_resolver("Query", "a", Constant(1))
schema.validate()  # the schema (including the resolver signature check) is valid
print("schema.validate(): ok")

DOC = "{ a b }"
EXPECTED = {"data": {"a": 1, "b": None}}
problems = []


def attempt(name, fn):
    try:
        res = fn().response()
        print("%-22s %s" % (name, json.dumps(res)))
        if res != EXPECTED:
            problems.append("%s: unexpected response" % name)
    except Exception as err:  # noqa
        print("%-22s RAISED %s: %s" % (name, type(err).__name__, err))
        problems.append("%s raised %s: %s" % (name, type(err).__name__, err))


attempt("graphql_blocking", lambda: graphql_blocking(schema, DOC))
attempt("process_graphql_query", lambda: process_graphql_query(schema, DOC))
attempt("graphql (asyncio)", lambda: asyncio.run(graphql(schema, DOC)))
attempt("thread pool runtime", lambda: process_graphql_query(schema, DOC, runtime=ThreadPoolRuntime(max_workers=2)).result(timeout=10))

print("expected everywhere    %s" % json.dumps(EXPECTED))
if problems:
    print()
    for p in problems:
        print("DEFECT:", p)
    sys.exit(1)
