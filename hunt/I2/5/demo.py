"""
C16 (through C17's refusals): py_gql.execution.subscribe fires
Instrumentation.on_execution_start BEFORE it checks that the operation can be
served (single root field, field has a subscription resolver) and before the
subscription resolver runs; when the operation is then refused with the
documented exception - or the subscription resolver fails - the matching
on_execution_end never fires: a started stage without its end hook.

Run: PYTHONPATH=/repo/src /venv/bin/python demo.py   (exit code 1 = defect shown)
"""
import asyncio
import sys

from py_gql import build_schema
from py_gql.execution import Instrumentation, subscribe
from py_gql.execution.runtime import AsyncIORuntime
from py_gql.lang import parse

schema = build_schema(
    """
    type Query { a: Int }
    type Subscription { ticks: Int, plain: Int, broken: Int }
    """
)


@schema.subscription("Subscription.ticks")
def ticks(root, ctx, info):
    async def gen():
        for i in range(2):
            yield {"ticks": i}

    return gen()


@schema.subscription("Subscription.broken")
async def broken(root, ctx, info):
    raise RuntimeError("source cannot be created")


class Rec(Instrumentation):
    def __init__(self):
        self.ev = []

    def on_execution_start(self):
        self.ev.append("execution+")

    def on_execution_end(self):
        self.ev.append("execution-")


async def attempt(doc):
    rec = Rec()
    try:
        stream = await subscribe(schema, parse(doc), runtime=AsyncIORuntime(), instrumentation=rec)
        n = 0
        async for _ in stream:
            n += 1
        outcome = "%d results" % n
    except Exception as err:  # noqa
        outcome = "refused: %s: %s" % (type(err).__name__, err)
    return outcome, rec.ev


problems = []
for doc in (
    "subscription { ticks }",                      # served
    "subscription { a: ticks b: ticks }",          # several root fields  -> ExecutionError
    "subscription { plain }",                      # no subscription resolver -> RuntimeError
    "subscription { broken }",                     # subscription resolver fails
):
    outcome, ev = asyncio.run(attempt(doc))
    print("%-40s %-75s hooks=%s" % (doc, outcome, ev))
    if ev.count("execution+") != ev.count("execution-"):
        problems.append("%s: %d on_execution_start vs %d on_execution_end" % (doc, ev.count("execution+"), ev.count("execution-")))

if problems:
    print()
    for p in problems:
        print("DEFECT (C16): execution stage started but never ended -", p)
    sys.exit(1)
