"""
C04 (extensions x defaults): the default value of an argument (or input field)
written in SDL is coerced against the *un-extended* input types.

  input I { x: Int }
  extend input I { y: Int = 5 }
  type Query { f(i: I = {x: 1}): String }

`{ f }` calls the resolver with {x: 1} while the equivalent `{ f(i: {x: 1}) }`
calls it with {x: 1, y: 5}; the same schema written without `extend` gives
{x: 1, y: 5} in both cases.  When the default needs something that only the
extension provides (an enum value added by `extend enum`) build_schema fails on
a valid SDL document with UnknownEnumValue (not even an SDLError).

Run: PYTHONPATH=/repo/src /venv/bin/python demo.py   (exit code 1 = defect shown)
"""
import json
import sys

from py_gql import build_schema, graphql_blocking

problems = []


def echo(root, ctx, info, **kw):
    return json.dumps(kw, sort_keys=True)


def run(sdl, doc):
    schema = build_schema(sdl)
    schema.register_resolver("Query", "f", echo)
    return graphql_blocking(schema, doc).response()


EXTENDED = """
input I { x: Int }
extend input I { y: Int = 5 }
type Query { f(i: I = {x: 1}): String }
"""
FLAT = """
input I { x: Int, y: Int = 5 }
type Query { f(i: I = {x: 1}): String }
"""

implicit = run(EXTENDED, "{ f }")
explicit = run(EXTENDED, "{ f(i: {x: 1}) }")
flat = run(FLAT, "{ f }")
print("schema with `extend input`, { f }            ->", json.dumps(implicit))
print("schema with `extend input`, { f(i: {x: 1}) } ->", json.dumps(explicit))
print("same schema without extend, { f }            ->", json.dumps(flat))
if not (implicit == explicit == flat):
    problems.append(
        "the argument default {x: 1} is not coerced by the extended input type: y's default (5) is missing "
        "when the default is used, but present when the same literal is written in the request"
    )

print()
try:
    res = run(
        """
        enum E { A }
        extend enum E { B }
        type Query { f(e: E = B): String }
        """,
        "{ f }",
    )
    print("default `E = B` with B added by `extend enum` ->", json.dumps(res))
    if res != {"data": {"f": json.dumps({"e": "B"})}}:
        problems.append("unexpected result for enum default")
except Exception as err:  # noqa
    print("default `E = B` with B added by `extend enum` -> build_schema RAISED %s: %s" % (type(err).__name__, err))
    problems.append("a valid SDL document cannot be built: %s: %s" % (type(err).__name__, err))

if problems:
    print()
    for p in problems:
        print("DEFECT:", p)
    sys.exit(1)
