"""
C04: an optional variable that is simply not provided (an accepted variable
assignment) and is used *inside* an input object literal (or list literal) of
an argument makes the field fail with a coercion error, instead of the input
field being treated as absent (June 2018, 3.10 Input Objects, input coercion
table: literal `{ a: $var, b: 123 }` with variables `{}` coerces to `{ b: 123 }`).

Run: PYTHONPATH=/repo/src /venv/bin/python demo.py   (exit code 1 = defect shown)
"""
import json
import sys

from py_gql import build_schema, graphql_blocking

schema = build_schema(
    """
    input I { a: String, b: Int! , c: Int = 7 }
    type Query { f(i: I): String }
    """
)


@schema.resolver("Query.f")
def resolve_f(root, ctx, info, i=None):
    return json.dumps(i, sort_keys=True)


problems = []


def check(doc, variables, expected_data):
    res = graphql_blocking(schema, doc, variables=variables).response()
    print("document :", doc)
    print("variables:", variables)
    print("observed :", json.dumps(res, sort_keys=True))
    print("expected : {\"data\": %s}" % json.dumps(expected_data, sort_keys=True))
    print()
    if res != {"data": expected_data}:
        problems.append((doc, variables))


# the spec's own example rows (3.10 Input Objects):
#   { a: $var, b: 123 }   { var: null }  ->  { a: null, b: 123 }
check("query ($var: String) { f(i: {a: $var, b: 123}) }", {"var": None},
      {"f": json.dumps({"a": None, "b": 123, "c": 7}, sort_keys=True)})
#   { a: $var, b: 123 }   {}             ->  { b: 123 }
check("query ($var: String) { f(i: {a: $var, b: 123}) }", {},
      {"f": json.dumps({"b": 123, "c": 7}, sort_keys=True)})
# an omitted variable at a field that has a default: the default applies
check("query ($var: Int) { f(i: {b: 1, c: $var}) }", {},
      {"f": json.dumps({"b": 1, "c": 7}, sort_keys=True)})

if problems:
    print("DEFECT (C04): %d valid request(s) with an accepted variable assignment did not produce the "
          "specified result; the omitted optional variable turned the whole field into null + error" % len(problems))
    sys.exit(1)
print("no defect")
