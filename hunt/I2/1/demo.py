"""
C08 / C16: a CoercionError raised while a field's value is *completed* (here: by
a generator returned from a list resolver, which lazily coerces the arguments
of a query directive) is

  * an exception out of the whole request under BlockingExecutor
    (graphql_blocking), but
  * null + one field error under the generic Executor on the blocking, asyncio
    and thread-pool runtimes, which moreover fire on_field_end TWICE for that
    field.

Run: PYTHONPATH=/repo/src /venv/bin/python demo.py   (exit code 1 = defect shown)
"""
import asyncio
import json
import sys

from py_gql import build_schema, process_graphql_query
from py_gql.execution import BlockingExecutor, Instrumentation
from py_gql.execution.runtime import AsyncIORuntime, ThreadPoolRuntime

schema = build_schema(
    """
    directive @limit(n: Int!) on FIELD
    type Query { xs: [Int], a: Int }
    """
)


@schema.resolver("Query.xs")
def resolve_xs(root, ctx, info):
    def gen():
        # evaluated lazily, i.e. while the executor completes the list value
        n = info.get_directive_arguments("limit")["n"]
        for i in range(n):
            yield i

    return gen()


@schema.resolver("Query.a")
def resolve_a(root, ctx, info):
    return 1


class Rec(Instrumentation):
    def __init__(self):
        self.ev = []

    def on_field_start(self, root, ctx, info):
        self.ev.append("+" + ".".join(map(str, info.path)))

    def on_field_end(self, root, ctx, info):
        self.ev.append("-" + ".".join(map(str, info.path)))


# valid document; {"n": null} is accepted by variable coercion ($n is nullable)
DOC = "query ($n: Int = 2) { xs @limit(n: $n) a }"
VARS = {"n": None}


def run(name):
    rec = Rec()
    kw = dict(variables=VARS, instrumentation=rec)
    try:
        if name == "BlockingExecutor":
            r = process_graphql_query(schema, DOC, executor_cls=BlockingExecutor, **kw)
        elif name == "Executor+BlockingRuntime":
            r = process_graphql_query(schema, DOC, **kw)
        elif name == "Executor+AsyncIORuntime":
            loop = asyncio.new_event_loop()
            asyncio.set_event_loop(loop)

            async def go():
                return await process_graphql_query(schema, DOC, runtime=AsyncIORuntime(), **kw)

            r = loop.run_until_complete(go())
            loop.close()
        else:
            r = process_graphql_query(schema, DOC, runtime=ThreadPoolRuntime(max_workers=2), **kw).result(timeout=10)
        return "result " + json.dumps(r.response(), sort_keys=True), rec.ev
    except Exception as err:  # noqa
        return "RAISED %s: %s" % (type(err).__name__, err), rec.ev


outcomes = {}
problems = []
for name in ("BlockingExecutor", "Executor+BlockingRuntime", "Executor+AsyncIORuntime", "Executor+ThreadPoolRuntime"):
    out, ev = run(name)
    outcomes[name] = out
    print("%-27s %s" % (name, out))
    print("%-27s hooks: %s" % ("", ev))
    if ev.count("-xs") > 1:
        problems.append("C16: %s fired on_field_end %d times for field 'xs' (expected exactly once)" % (name, ev.count("-xs")))

if len(set(outcomes.values())) != 1:
    problems.append(
        "C08: the four executor/runtime configurations disagree: "
        + "; ".join("%s -> %s" % (k, v[:60]) for k, v in outcomes.items())
    )

print()
for p in problems:
    print("DEFECT:", p)
sys.exit(1 if problems else 0)
