"""C11 (extend_schema x schema directives): extend_schema(..., schema_directives=)
applies the directives again to everything the base schema already had them
applied to."""
import sys

from py_gql import build_schema, graphql_blocking
from py_gql.exc import GraphQLError
from py_gql.schema import Argument, Field, Int
from py_gql.sdl import SchemaDirective, extend_schema


class Paginated(SchemaDirective):
    """`@paginated` adds a `limit` argument to the field (structural)."""

    definition = "paginated"

    def on_field(self, field):
        return Field(
            field.name,
            field.type,
            args=list(field.arguments) + [Argument("limit", Int, default_value=10)],
            description=field.description,
            resolver=field.resolver,
            node=field.node,
        )


class Exclaim(SchemaDirective):
    """`@exclaim` appends "!" to the resolved value (behavioural)."""

    definition = "exclaim"

    def on_field(self, field):
        def wrapped(root, ctx, info, **kw):
            return str(root[info.field_definition.name]) + "!"

        inner = field.resolver
        if inner is not None:
            def wrapped(root, ctx, info, **kw):  # noqa
                return str(inner(root, ctx, info, **kw)) + "!"

        return Field(field.name, field.type, args=field.arguments, resolver=wrapped, node=field.node)


BASE = """
directive @paginated on FIELD_DEFINITION
directive @exclaim on FIELD_DEFINITION
type Query { items: [Int] @paginated  hello: String @exclaim }
"""
EXTENSION = "extend type Query { others: [Int] @paginated  bye: String @exclaim }"

problems = []

# reference: everything in one document
whole = build_schema(BASE + EXTENSION, schema_directives=[Paginated, Exclaim])
expected = whole.to_string()

base = build_schema(BASE, schema_directives=[Paginated, Exclaim])
try:
    extended = extend_schema(base, EXTENSION, schema_directives=[Paginated, Exclaim])
except GraphQLError as err:
    problems.append(
        "extend_schema() of a valid extension fails: %s: %s" % (type(err).__name__, err)
    )
    extended = None

if extended is not None and extended.to_string() != expected:
    problems.append("extended schema differs from the one built in one go:\n" + extended.to_string())

# behavioural directive alone, to show the double application without the crash
base2 = build_schema(BASE.replace("[Int] @paginated", "[Int]"), schema_directives=[Exclaim])
ext2 = extend_schema(base2, "extend type Query { bye: String @exclaim }", schema_directives=[Exclaim])
data = dict(graphql_blocking(ext2, "{ hello bye }", root={"hello": "hello", "bye": "bye"}).response()["data"])
print("data:", data)
if data != {"hello": "hello!", "bye": "bye!"}:
    problems.append("@exclaim applied twice to the base field: %r" % data)

for p in problems:
    print("DEFECT", p)
if problems:
    print(
        "\nExpected: the extension is merged into the schema and the schema "
        "directives are applied once per use in the documents, as when the "
        "two documents are built in one go:\n" + expected
    )
    sys.exit(1)
