"""C11: valid documents whose type graph is large fail with RecursionError:
Schema._build_type_map uses one Python stack frame per type on the depth-first
path."""
import random
import sys

from py_gql import build_schema

assert sys.getrecursionlimit() == 1000  # CPython default, nothing tuned here

failures = []

# 1. A plain chain Query -> T0 -> T1 -> ... (objects, then input objects)
for keyword, query in (
    ("type", "type Query { a: T0 }"),
    ("input", "type Query { a(x: T0): Int }"),
):
    n = 1100
    doc = "\n".join(
        [query]
        + [
            "%s T%d { f: %s }" % (keyword, i, "T%d" % (i + 1) if i < n - 1 else "Int")
            for i in range(n)
        ]
    )
    try:
        schema = build_schema(doc)
        assert len([t for t in schema.types if t.startswith("T")]) == n
        print("ok      chain of %d %s definitions" % (n, keyword))
    except RecursionError as err:
        failures.append("chain of %d `%s` definitions: RecursionError" % (n, keyword))

# 2. No long chain is written anywhere: 2000 object types with an id and four
#    fields pointing at random other types (the shape of a large real-world API).
rnd = random.Random(1)
n = 2000
doc = "\n".join(
    ["type Query { a: T0 }"]
    + [
        "type T%d { id: ID %s }"
        % (i, " ".join("f%d: T%d" % (k, rnd.randrange(n)) for k in range(4)))
        for i in range(n)
    ]
)
try:
    build_schema(doc)
    print("ok      %d randomly connected object types" % n)
except RecursionError:
    failures.append("%d randomly connected object types: RecursionError" % n)

for f in failures:
    print("DEFECT ", f)

if failures:
    print(
        "\nC11 demands that building succeeds for every valid type-system "
        "document; these valid documents raise RecursionError."
    )
    sys.exit(1)
