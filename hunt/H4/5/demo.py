"""C12: string defaults of ID / custom scalar positions that look like a number
followed by a line feed are printed as number literals: the line feed is lost
after the round trip and the printed text is not a fix-point."""
import sys

from py_gql import build_schema
from py_gql.schema import ID, Argument, Field, ObjectType, Schema

problems = []


def default_of(schema, type_name, field, arg=None):
    t = schema.types[type_name]
    if arg is None:
        return t.field_map[field].default_value
    return t.field_map[field].argument_map[arg].default_value


# 1. SDL built
sdl = (
    'scalar S\n'
    'input I { id: ID! = "0\\n" }\n'
    'type Query { a(id: ID = "5\\n", s: S = "1.5\\n", i: I = {}): Int }\n'
)
s1 = build_schema(sdl)
t1 = s1.to_string()
s2 = build_schema(t1)
t2 = s2.to_string()
print(t1)

for what, args in (
    ("Query.a(id:)", ("Query", "a", "id")),
    ("Query.a(s:)", ("Query", "a", "s")),
    ("Query.a(i:)", ("Query", "a", "i")),
    ("I.id", ("I", "id")),
):
    before, after = default_of(s1, *args), default_of(s2, *args)
    if before != after:
        problems.append(
            "default of %s: %r before, %r after schema -> SDL -> schema"
            % (what, before, after)
        )

if t1 != t2:
    problems.append("printing the rebuilt schema gives a different text:\n" + t2)

# 2. code built
s3 = Schema(
    ObjectType(
        "Query", [Field("a", ID, [Argument("id", ID, default_value="42\n")])]
    )
)
after = default_of(build_schema(s3.to_string()), "Query", "a", "id")
if after != "42\n":
    problems.append("code built ID default '42\\n' comes back as %r" % after)

for p in problems:
    print("DEFECT", p)

if problems:
    print("\nC12 demands the same default values after schema -> SDL -> schema "
          "and a printed text which is a fix-point.")
    sys.exit(1)
