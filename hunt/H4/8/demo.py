"""C13: the resolver signature rule misses required keyword-only parameters
when the resolver also takes *args, and blows up with a bare TypeError on a
non callable resolver."""
import sys

from py_gql import build_schema, graphql_blocking
from py_gql.exc import SchemaValidationError

SDL = "type Query { a(x: Int): Int b: Int }"
problems = []


def verdict(schema):
    try:
        schema.validate()
        return "accepted"
    except SchemaValidationError as err:
        return "rejected: " + "; ".join(str(e) for e in err.errors)
    except Exception as err:  # noqa
        return "raised %s: %s" % (type(err).__name__, err)


def executes(schema, query):
    try:
        graphql_blocking(schema, query)
        return "executes"
    except Exception as err:  # noqa
        return "execution raises %s: %s" % (type(err).__name__, err)


# -- 1. required keyword-only parameter nobody will ever provide -------------
def r1(*args, tenant):
    return 1


def r2(root, ctx, *rest, tenant):
    return 1


def r3(root, *rest, x=None, tenant):
    return 1


for field, query, resolver in (("b", "{ b }", r1), ("b", "{ b }", r2), ("a", "{ a(x: 1) }", r3)):
    schema = build_schema(SDL)
    schema.register_resolver("Query", field, resolver)
    v = verdict(schema)
    print("%-4s on Query.%s: %s" % (resolver.__name__, field, v))
    if v == "accepted":
        problems.append(
            "%s%s accepted by validate(), but %s"
            % (
                resolver.__name__,
                __import__("inspect").signature(resolver),
                executes(schema, query),
            )
        )

# control: the same parameter without *args is caught
def r4(root, ctx, info, *, tenant):
    return 1


schema = build_schema(SDL)
schema.register_resolver("Query", "b", r4)
print("r4   on Query.b:", verdict(schema), "(control)")

# -- 2. non callable resolver ------------------------------------------------
schema = build_schema(SDL)
schema.register_resolver("Query", "a", lambda: 1)  # a second, independent violation
schema.register_resolver("Query", "b", "not a function")
v = verdict(schema)
print("str  on Query.b:", v)
if not v.startswith("rejected"):
    problems.append(
        "non callable resolver: validate() %s instead of a SchemaValidationError "
        "listing this and the other violation (the resolver of Query.a takes no "
        "parameter at all)" % v
    )

for p in problems:
    print("DEFECT", p)
if problems:
    print(
        "\nC13: validation must reject every schema whose resolver signatures "
        "are not compatible with the way fields are called "
        "(resolver(root, ctx, info, **arguments)), reporting all violations "
        "together as a SchemaValidationError."
    )
    sys.exit(1)
