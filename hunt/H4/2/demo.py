"""C11: an output type at an input position that is reached *through the default
value of another input field / argument* gives a bare TypeError."""
import sys

from py_gql import build_schema
from py_gql.exc import SchemaError, SDLError

INVALID_DOCUMENTS = [
    # In2.q is an object type; it carries no default itself, the default sits
    # one level up.
    "input In { u: In2 = {q: {a: 1}} } input In2 { q: Query } type Query { a(x: In): Int }",
    "type Query { a(x: In): Int } input In { u: In2 = {q: {a: 1}} } input In2 { q: Query }",
    "type Query { a: Int } input In { u: [In2!] = [{q: 1}] } input In2 { q: U } union U = Query",
    "type Query { a: Int } directive @d(x: In2 = {q: 1}) on FIELD input In2 { q: I } interface I { a: Int }",
]

bad = 0
for doc in INVALID_DOCUMENTS:
    try:
        build_schema(doc)
    except (SDLError, SchemaError) as err:
        print("ok       %-14s %s" % (type(err).__name__, doc))
    except BaseException as err:  # noqa
        bad += 1
        print("DEFECT   %s(%s)\n         %s" % (type(err).__name__, err, doc))
    else:
        bad += 1
        print("DEFECT   accepted  %s" % doc)

# for comparison: the same mistake without the outer default is reported properly
try:
    build_schema("input In { u: In2 } input In2 { q: Query } type Query { a(x: In): Int }")
except SchemaError as err:
    print("\n(for comparison, without the default) %s: %s" % (type(err).__name__, err))

if bad:
    print(
        "\n%d invalid documents raised an unrelated exception instead of an "
        "SDLError / SchemaError" % bad
    )
    sys.exit(1)
