"""C13: an object field may add arguments to the ones of the interface field as
long as they are not *required*. `extra: Int! = 1` is not required (it has a
default value) but validation rejects it."""
import sys

from py_gql import build_schema
from py_gql.exc import SchemaValidationError
from py_gql.schema import (
    Argument, Field, Int, InterfaceType, NonNullType, ObjectType, Schema,
)

problems = []

SDL = """
interface Node { items: [Int] }
type Query implements Node { items(first: Int! = 10): [Int] }
"""
try:
    schema = build_schema(SDL)
except SchemaValidationError as err:
    problems.append("SDL built: rejected with %s" % [str(e) for e in err.errors])

# code built, to show what the library itself thinks of the argument
arg = Argument("first", NonNullType(Int), default_value=10)
print("Argument.required (library's own notion):", arg.required)
iface = InterfaceType("Node", [Field("items", Int)])
query = ObjectType("Query", [Field("items", Int, [arg])], interfaces=[iface])
schema = Schema(query)
try:
    schema.validate()
except SchemaValidationError as err:
    problems.append("code built: rejected with %s" % [str(e) for e in err.errors])

# control: a really required additional argument must still be refused
try:
    build_schema(
        "interface Node { items: [Int] } "
        "type Query implements Node { items(first: Int!): [Int] }"
    )
    problems.append("control: required additional argument accepted")
except SchemaValidationError:
    print("control ok: `first: Int!` (no default) is refused")

for p in problems:
    print("DEFECT", p)
if problems:
    print(
        "\nJune 2018, 3.6 Objects, type validation 4.1.3: 'The object field may "
        "include additional arguments not defined in the interface field, but "
        "any additional argument must not be required'; 5.4.2.1: 'An argument "
        "is required if the argument type is non-null and does not have a "
        "default value.'  The schema is valid and must be accepted (C13)."
    )
    sys.exit(1)
