"""C11: as soon as `schema_directives` is passed (even an empty list), a valid
document using a custom directive that is *defined in the document* but has no
SchemaDirective implementation is refused with 'Unknown directive'."""
import sys

from py_gql import build_schema
from py_gql.exc import SDLError
from py_gql.sdl import SchemaDirective

DOC = """
directive @upper on FIELD_DEFINITION
directive @cacheControl(maxAge: Int) on FIELD_DEFINITION | OBJECT

type Query @cacheControl(maxAge: 1) {
    a: String @upper
    b: Int @cacheControl(maxAge: 10)
}
"""


class Upper(SchemaDirective):
    definition = "upper"

    def on_field(self, field):
        return field


reference = build_schema(DOC)  # fine
assert "cacheControl" in reference.directives

failures = []
for label, directives in (("[Upper]", [Upper]), ("[] (empty)", [])):
    try:
        schema = build_schema(DOC, schema_directives=directives)
    except SDLError as err:
        failures.append("schema_directives=%s -> SDLError: %s" % (label, err))
    else:
        same = schema.to_string(include_custom_schema_directives=True) == (
            reference.to_string(include_custom_schema_directives=True)
        )
        print("ok  schema_directives=%s builds, same content: %s" % (label, same))

for f in failures:
    print("DEFECT", f)

if failures:
    print(
        "\nThe document is valid (the directive IS defined, at a legal location, "
        "with legal arguments) and builds without the option; C11 demands that "
        "it builds, with the declared directive definitions, whatever the "
        "options. Observed: rejected as 'Unknown directive \"@cacheControl\"'."
    )
    sys.exit(1)
