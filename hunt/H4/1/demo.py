"""C11: self-referential `union` members / `implements` lists make build_schema
(and extend_schema) die with RecursionError instead of an SDL / schema error."""
import sys

from py_gql import build_schema
from py_gql.exc import SchemaError, SDLError
from py_gql.sdl import extend_schema

INVALID_DOCUMENTS = [
    "type Query { a: Int } union U = U",
    "type Query { a: A } union A = B union B = A",
    "type Query implements Query { a: Int }",
    "type Query { a: A } type A implements B { a: Int } type B implements A { a: Int }",
    "type Query { a: Int } type A implements U { a: Int } union U = A",
    "type Query { a: Int } extend type Query implements Query",
    "type Query { a: U } type A { a: Int } union U = A extend union U = U",
]

bad = 0
for doc in INVALID_DOCUMENTS:
    try:
        build_schema(doc)
    except (SDLError, SchemaError) as err:
        print("ok       %-14s %s" % (type(err).__name__, doc))
    except BaseException as err:  # noqa
        bad += 1
        print("DEFECT   %-14s %s" % (type(err).__name__, doc))
    else:
        bad += 1
        print("DEFECT   accepted       %s" % doc)

base = build_schema("type Query { a: U } type A { a: Int } union U = A")
for ext in ["extend union U = U", "extend type A implements A"]:
    try:
        extend_schema(base, ext)
    except (SDLError, SchemaError) as err:
        print("ok       %-14s extend_schema: %s" % (type(err).__name__, ext))
    except BaseException as err:  # noqa
        bad += 1
        print("DEFECT   %-14s extend_schema: %s" % (type(err).__name__, ext))

if bad:
    print(
        "\n%d invalid documents were not rejected with an SDLError / SchemaError "
        "(expected by C11: 'rejected with one of the library's schema or SDL "
        "errors, never with an unrelated exception')" % bad
    )
    sys.exit(1)
