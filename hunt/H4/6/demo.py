"""C12: an empty description ("") is not printed at all: after
schema -> SDL -> schema it has become None (null in introspection)."""
import sys

from py_gql import build_schema, graphql_blocking
from py_gql.schema import Argument, EnumType, EnumValue, Field, Int, ObjectType, Schema

problems = []

SDL = '''
"" type Query { "" a("" x: Int): Int }
"" enum E { "" A }
"""""" input I { "" a: Int }
"" directive @d on FIELD
'''
s1 = build_schema(SDL)
text = s1.to_string()
print(text)
s2 = build_schema(text)


def descriptions(s):
    q = s.types["Query"]
    return {
        "Query": q.description,
        "Query.a": q.field_map["a"].description,
        "Query.a(x:)": q.field_map["a"].argument_map["x"].description,
        "E": s.types["E"].description,
        "E.A": s.types["E"].values[0].description,
        "I": s.types["I"].description,
        "I.a": s.types["I"].field_map["a"].description,
        "@d": s.directives["d"].description,
    }


d1, d2 = descriptions(s1), descriptions(s2)
for k in d1:
    if d1[k] != d2[k]:
        problems.append("description of %s: %r before, %r after" % (k, d1[k], d2[k]))

# visible to clients through introspection
QUERY = '{ __type(name: "Query") { description fields { description } } }'
r1 = graphql_blocking(s1, QUERY).response()["data"]
r2 = graphql_blocking(s2, QUERY).response()["data"]
if r1 != r2:
    problems.append("introspection differs: %r vs %r" % (dict(r1["__type"]), dict(r2["__type"])))

# code built
s3 = Schema(ObjectType("Query", [Field("a", Int, description="")], description=""))
s4 = build_schema(s3.to_string())
if s4.types["Query"].description != "":
    problems.append(
        "code built: description '' -> %r" % (s4.types["Query"].description,)
    )

for p in problems:
    print("DEFECT", p)
if problems:
    print("\nC12 demands the same descriptions after schema -> SDL -> schema.")
    sys.exit(1)
