"""C13: violations are not all reported together: a wrong field type hides the
argument violations of the same interface field, a duplicate name hides the
other violations of the duplicate member."""
import sys

from py_gql import build_schema
from py_gql.exc import SchemaValidationError


def errors_of(sdl):
    try:
        build_schema(sdl)
    except SchemaValidationError as err:
        return [str(e) for e in err.errors]
    return []


problems = []

# -- 1. three violations of the interface implementation rule on one field ---
ONLY_ARGS = "interface I { a(x: Int): String } type Query implements I { a(y: Int!): String }"
TYPE_AND_ARGS = "interface I { a(x: Int): String } type Query implements I { a(y: Int!): Int }"
arg_errors = errors_of(ONLY_ARGS)
all_errors = errors_of(TYPE_AND_ARGS)
print("argument violations alone   :", arg_errors)
print("+ wrong return type injected:", all_errors)
missing = [e for e in arg_errors if e not in all_errors]
if missing:
    problems.append(
        "after also breaking the return type, %d argument violations are no "
        "longer reported: %s" % (len(missing), missing)
    )

# -- 2. a duplicate member hides the other violations of that member ---------
ALONE = "type Query { a: Int } input In { a: Int __b: Query }"
DUPLICATE = "type Query { a: Int } input In { a: Int a: Query }"
print("input field of output type  :", errors_of(ALONE))
print("same, as a duplicate of `a` :", errors_of(DUPLICATE))
if not any("Expected input type" in e for e in errors_of(DUPLICATE)):
    problems.append(
        "input field `a: Query` is both a duplicate and of an output type; only "
        "the duplicate is reported: %s" % errors_of(DUPLICATE)
    )

for p in problems:
    print("DEFECT", p)
if problems:
    print("\nC13: every rule violation is rejected 'while reporting all "
          "violations together'.")
    sys.exit(1)
