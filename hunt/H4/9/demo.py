"""C13: the schema wide default resolver is checked against the arguments of
*interface* fields, which are never resolved: a valid, working schema is
rejected (and cannot be repaired by registering a resolver on the interface)."""
import sys

from py_gql import build_schema
from py_gql.exc import SchemaError, SchemaValidationError
from py_gql.schema.validation import validate_schema

SDL = """
interface Node { child(depth: Int): Int }
type Query implements Node { child(depth: Int): Int  version: Int }
"""

schema = build_schema(SDL)


# every object field taking arguments has its own, compatible resolver
def resolve_child(root, ctx, info, depth=None):
    return depth


schema.register_resolver("Query", "child", resolve_child)


# ... and the argument-less fields use a schema wide default resolver
def default_resolver(root, ctx, info):
    return 7


schema.default_resolver = default_resolver

problems = []
try:
    schema.validate()
    print("validate(): accepted")
except SchemaValidationError as err:
    problems.append("validate() rejects the schema: %s" % [str(e) for e in err.errors])

# The schema does work: every other rule holds and it executes correctly.
validate_schema(schema, enable_resolver_validation=False)
from py_gql.execution import execute  # noqa
from py_gql.execution.blocking_executor import BlockingExecutor  # noqa
from py_gql.lang import parse  # noqa

result = execute(
    schema,
    parse("{ child(depth: 3) version ... on Node { c2: child } }"),
    executor_cls=BlockingExecutor,
)
print("execution:", dict(result.response()["data"]), result.errors)
assert dict(result.response()["data"]) == {"child": 3, "version": 7, "c2": None}

# There is no way to give the interface field a resolver of its own:
try:
    schema.register_resolver("Node", "child", resolve_child)
except SchemaError as err:
    print("register_resolver('Node', 'child', ...):", err)

for p in problems:
    print("DEFECT", p)
if problems:
    print(
        "\nThe only resolvers ever called are those of object type fields "
        "(Executor.field_resolver(parent_type: ObjectType, ...)); every one of "
        "them is compatible with its field's arguments here, so C13 demands "
        "that the schema is accepted."
    )
    sys.exit(1)
