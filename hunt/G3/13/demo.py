"""C07 (aliasing, repeated calls): resolvers are handed the schema's own default-value objects and,
for fields resolved once per list item, the very same coerced argument objects. A resolver that
consumes its arguments (dict.pop / list.append, ordinary Python) changes what later calls and
later REQUESTS receive: declared defaults are no longer the ones filled in."""
import sys
from py_gql import build_schema, graphql_blocking

schema = build_schema('''
input Page { limit: Int = 10, tags: [String] = ["a"] }
type Item { f(page: Page = {}): String }
type Query { items: [Item]  g(page: Page = {}): String  h(page: Page): String }
''')
calls = []
def consume(page):
    calls.append({"limit": page.get("limit", "<MISSING>"), "tags": list(page["tags"])})
    page.pop("limit", None)          # typical: limit = page.pop("limit")
    page["tags"].append("seen")
    return "ok"
class Item:
    def f(self, ctx, info, page): return consume(page)
class Root:
    items = [Item(), Item()]
    def g(self, ctx, info, page): return consume(page)
    def h(self, ctx, info, page): return consume(page)

DECLARED = {"limit": 10, "tags": ["a"]}
bad = False
def run(doc, label):
    global bad
    del calls[:]
    graphql_blocking(schema, doc, root=Root())
    for n, c in enumerate(calls):
        ok = c == DECLARED
        print("%-40s call %d received %r %s" % (label, n, c, "" if ok else "<-- VIOLATION, declared defaults are %r" % DECLARED))
        bad = bad or not ok

run("{ h(page: {}) }", "request 1: { h(page: {}) }")                 # field default tags mutated here ...
run("{ h(page: {}) }", "request 2: same document")                   # ... and seen by the next request
run("{ g }", "request 3: { g } (argument default)")
run("{ g }", "request 4: { g } again")
run("{ items { f(page: {tags: [\"a\"]}) } }", "request 5: explicit literal, 2 list items")
sys.exit(1 if bad else 0)
