"""C05: validate_ast raises AttributeError for an object literal at a custom scalar position."""
import sys, traceback
from py_gql import build_schema, graphql_blocking
from py_gql.lang import parse
from py_gql.schema import Schema, ObjectType, Field, Argument, ScalarType, String
from py_gql.validation import validate_ast

bad = False

# 1. scalar declared in SDL (default_scalar: transparent scalar)
schema = build_schema("scalar JSON  type Query { any(x: JSON): String  lst(x: [JSON]): String }")
for doc in ('{ any(x: {a: 1}) }', '{ lst(x: [1, {a: 1}]) }', 'query ($v: JSON = {a: 1}) { any(x: $v) }'):
    try:
        errors = validate_ast(schema, parse(doc)).errors
        print(doc, "->", [str(e) for e in errors])
    except Exception as err:
        bad = True
        print(doc, "-> validate_ast RAISED %r (property: must return a list of errors)" % err)

# 2. hand written scalar that only provides parse() (parse_literal is documented optional)
Upper = ScalarType("Upper", serialize=str, parse=lambda v: str(v).upper())
schema2 = Schema(ObjectType("Query", [Field("up", String, [Argument("x", Upper)])]))
try:
    print(validate_ast(schema2, parse('{ up(x: {a: 1}) }')).errors)
except Exception as err:
    bad = True
    print("ScalarType without parse_literal: validate_ast RAISED %r" % err)

# 3. the public entry point leaks the exception as well
try:
    graphql_blocking(schema, '{ any(x: {a: 1}) }', root={})
except Exception as err:
    bad = True
    print("graphql_blocking RAISED %r" % err)

sys.exit(1 if bad else 0)
