"""C06 / C07: the type expected for the ITEMS of a list literal is computed with unwrap_type,
which strips every List / NonNull wrapper instead of exactly one list level."""
import sys
from py_gql import build_schema, graphql_blocking
from py_gql.lang import parse
from py_gql.validation import validate_ast

schema = build_schema("""
input Obj { ll: [[Int]] l: [Int!] }
type Query { linn(x: [Int!]): String  lli(x: [[Int]]): String  o(x: Obj): String }
""")
seen = []
class Root:
    def linn(self, ctx, info, **kw):
        seen.append(kw); return repr(kw)
    lli = o = linn

def errors(doc):
    return [str(e) for e in validate_ast(schema, parse(doc)).errors]

bad = False
def expect_invalid(doc, why):
    global bad
    e = errors(doc)
    if not e:
        bad = True
        print("VIOLATION: %s validates; %s" % (doc, why))
    return e

# (a) null item in a list of non-null
expect_invalid('{ linn(x: [1, null]) }', "null is not a value of Int! (5.6.1)")
expect_invalid('{ o(x: {l: [null]}) }', "null is not a value of Int! (5.6.1)")
# (b) nullable variable used as item of a list of non-null (5.8.5 All Variable Usages Are Allowed)
expect_invalid('query ($v: Int) { linn(x: [$v]) }', "Int is not allowed where Int! is expected")
# (c) Int variable used where an item of [[Int]] (i.e. [Int]) is expected
doc = 'query ($v: Int) { lli(x: [$v]) }'
if not expect_invalid(doc, "Int is not allowed where [Int] is expected (variables are not list-wrapped)"):
    del seen[:]
    graphql_blocking(schema, doc, variables={"v": 5}, root=Root())
    print("     resolver received %r for an argument of type [[Int]] -> not a list of lists (C07)" % seen)
    del seen[:]
    graphql_blocking(schema, 'query ($v: Int) { o(x: {ll: [$v]}) }', variables={"v": 5}, root=Root())
    print("     resolver received %r for Obj.ll: [[Int]] (C07)" % seen)
# (d) false positive: a [Int] variable IS a legal item of [[Int]]
doc = 'query ($v: [Int]) { lli(x: [$v]) }'
e = errors(doc)
if e:
    bad = True
    print("VIOLATION: valid document %s is rejected: %s" % (doc, e))
sys.exit(1 if bad else 0)
