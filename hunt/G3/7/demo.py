"""C07: variable values of the wrong JSON kind are silently converted instead of rejected,
so resolvers receive values that differ from what was sent / do not conform to the type."""
import sys
from py_gql import build_schema, graphql_blocking

schema = build_schema("""
type Query { bo(x: Boolean): String  i(x: Int): String  f(x: Float): String  s(x: String): String  id(x: ID): String }
""")
got = {}
class Root:
    def bo(self, ctx, info, **kw):
        got.update(kw); return "ok"
    i = f = s = id = bo

CASES = [  # (type, field, json value, python type the resolver may legitimately receive)
    ("Boolean", "bo", "false", bool), ("Boolean", "bo", "no", bool), ("Boolean", "bo", 0, bool), ("Boolean", "bo", 2.5, bool),
    ("Int", "i", True, int), ("Int", "i", "12", int), ("Int", "i", "1e3", int),
    ("Float", "f", True, float), ("Float", "f", "1.5", float),
    ("String", "s", 12, str), ("String", "s", True, str), ("String", "s", 1.5, str),
    ("ID", "id", True, str), ("ID", "id", 1.5, str),
]
bad = False
for type_, field, value, pytype in CASES:
    got.clear()
    doc = "query ($v: %s) { %s(x: $v) }" % (type_, field)
    resp = graphql_blocking(schema, doc, variables={"v": value}, root=Root()).response()
    if "errors" in resp:
        print("%-8s <- %-8r rejected: %s" % (type_, value, resp["errors"][0]["message"]))
    else:
        bad = True
        note = "" if type(got.get("x")) is pytype else "  (a bool, not a plain %s)" % pytype.__name__
        print("VIOLATION %-8s <- JSON %-8r accepted, resolver received x=%r%s" % (type_, value, got.get("x"), note))
        inline = graphql_blocking(schema, "{ %s(x: %s) }" % (field, __import__("json").dumps(value)), root=Root()).response()
        print("          the same value written inline is %s" % ("rejected" if "errors" in inline else "accepted"))
sys.exit(1 if bad else 0)
