"""C07 / C05: an integer too large for a double supplied for a Float variable leaks OverflowError."""
import json, sys
from py_gql import build_schema, graphql_blocking
from py_gql.schema import Float
from py_gql.utilities import coerce_value

schema = build_schema("type Query { f(x: Float): String }")
big = json.loads("1" + "0" * 400)            # perfectly valid JSON number, decoded by json as a Python int
bad = False
try:
    coerce_value(big, Float)
    print("coerce_value accepted the value")
except OverflowError as err:
    bad = True
    print("coerce_value(10**400, Float) RAISED OverflowError: %s (expected CoercionError)" % err)
except Exception as err:
    print("coerce_value rejected properly:", type(err).__name__)
try:
    resp = graphql_blocking(schema, "query ($v: Float) { f(x: $v) }", variables={"v": big}, root={}).response()
    print("response:", resp)
except Exception as err:
    bad = True
    print("graphql_blocking RAISED %s: %s (expected a response with a variable coercion error)"
          % (type(err).__name__, err))
# a resolver returning such an int for a Float field has the same problem on output
schema2 = build_schema("type Query { f: Float }")
try:
    print(graphql_blocking(schema2, "{ f }", root={"f": big}).response())
except Exception as err:
    print("(output side) graphql_blocking RAISED %s: %s" % (type(err).__name__, err))
sys.exit(1 if bad else 0)
