"""C19 / C05: MaxDepthValidationRule recurses forever (RecursionError) on a document with a fragment
cycle. Validators are all run even when an earlier one already reported errors, so the whole
request crashes instead of answering "Cannot spread fragment within itself"."""
import sys
from py_gql import build_schema, graphql_blocking
from py_gql.lang import parse
from py_gql.utilities.max_depth import MaxDepthValidationRule
from py_gql.validation import default_validator

schema = build_schema("type Human { name: String friends: [Human] } type Query { human: Human }")
rule = MaxDepthValidationRule(3)
bad = False
for doc in ("{ ...A } fragment A on Query { ...A }",
            "{ human { ...A } } fragment A on Human { friends { ...B } } fragment B on Human { friends { ...A } }"):
    try:
        print(doc, "->", [str(e) for e in rule(schema, parse(doc), {})])
    except RecursionError as err:
        bad = True
        print("%s\n    rule RAISED RecursionError" % doc)
    try:
        r = graphql_blocking(schema, doc, root={}, validators=[default_validator, rule])
        print("    graphql_blocking ->", r.response())
    except RecursionError:
        bad = True
        print("    graphql_blocking(validators=[default_validator, rule]) RAISED RecursionError "
              "(expected: response with the 'Cannot spread fragment ... within itself' validation error)")
sys.exit(1 if bad else 0)
