"""C07: a nullable variable that is not provided, used as the value of an INPUT OBJECT FIELD, makes
the whole argument fail instead of the field being treated as absent (default applied / omitted).
Same root cause as the recorded list-item case, different position with an explicit spec clause."""
import sys
from py_gql import build_schema, graphql_blocking
from py_gql.lang import parse
from py_gql.validation import validate_ast

schema = build_schema("""
input Obj { a: Int  b: Int! = 5  c: String = "dflt" }
type Query { o(x: Obj): String }
""")
got = []
class Root:
    def o(self, ctx, info, **kw):
        got.append(kw); return "ok"

bad = False
for doc, expected in [
    ("query ($v: Int) { o(x: {a: $v}) }", {"x": {"b": 5, "c": "dflt"}}),
    ("query ($v: Int) { o(x: {a: 1, b: $v}) }", {"x": {"a": 1, "b": 5, "c": "dflt"}}),
    ("query ($v: String) { o(x: {c: $v}) }", {"x": {"b": 5, "c": "dflt"}}),
]:
    assert not validate_ast(schema, parse(doc)).errors
    del got[:]
    resp = graphql_blocking(schema, doc, variables={}, root=Root()).response()
    inline_equiv = got[0] if got else None
    if inline_equiv != expected:
        bad = True
        print("VIOLATION %s with variables {}:\n    expected resolver arguments %r\n    observed: resolver %s, response %s"
              % (doc, expected, "called with %r" % inline_equiv if got else "not called", dict(resp)))
    else:
        print(doc, "-> resolver got", inline_equiv)
sys.exit(1 if bad else 0)
