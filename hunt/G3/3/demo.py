"""C05: a validated operation + accepted variables makes execution raise CoercionError
(null variable reaching the non-null `if` argument of @skip / @include)."""
import sys
from py_gql import build_schema, graphql_blocking
from py_gql.lang import parse
from py_gql.validation import validate_ast

schema = build_schema("type Human { name: String } type Query { a: String human: Human }")
root = {"a": "A", "human": {"name": "n"}}
bad = False
cases = [
    ("query ($v: Boolean = true) { a @skip(if: $v) }", {"v": None}),
    ("query ($v: Boolean = true) { human { name @include(if: $v) } }", {"v": None}),
    ("query ($v: Boolean = true) { ... @include(if: $v) { a } }", {"v": None}),
    ("query ($v: Boolean = true) { ...F @skip(if: $v) } fragment F on Query { a }", {"v": None}),
]
for doc, variables in cases:
    errors = validate_ast(schema, parse(doc)).errors
    assert not errors, errors  # Boolean with a default is allowed in a Boolean! position (spec 5.8.5)
    try:
        result = graphql_blocking(schema, doc, variables=variables, root=root)
        print(doc, variables, "->", result.response())
    except Exception as err:
        bad = True
        print("%s\n   variables=%r validation errors=[]\n   graphql_blocking RAISED %s: %s"
              % (doc, variables, type(err).__name__, err))
if bad:
    print("VIOLATION (C05): validation passed and null is an accepted value for a nullable Boolean "
          "variable, yet the request raised instead of returning a response (a field/request error).")
sys.exit(1 if bad else 0)
