"""C05/C06: conflicting fields reached through nested fragments are missed by
OverlappingFieldsCanBeMerged unless the fragment names happen to be 1 letter long."""
import sys
from py_gql import build_schema, graphql_blocking
from py_gql.lang import parse
from py_gql.validation import validate_ast

schema = build_schema("type Query { a: String b: String }")
root = {"a": "A", "b": "B"}

TEMPLATE = """
{ ...%(f1)s ...%(f2)s }
fragment %(f1)s on Query { ...%(inner)s }
fragment %(inner)s on Query { x: a }
fragment %(f2)s on Query { x: b }
"""
short = TEMPLATE % dict(f1="A", f2="B", inner="C")
long_ = TEMPLATE % dict(f1="Frag1", f2="Frag2", inner="Inner")
long_swapped = long_.replace("{ ...Frag1 ...Frag2 }", "{ ...Frag2 ...Frag1 }")

errs_short = [str(e) for e in validate_ast(schema, parse(short)).errors]
errs_long = [str(e) for e in validate_ast(schema, parse(long_)).errors]
print("errors with fragments named A/B/C      :", errs_short)
print("errors with fragments Frag1/Frag2/Inner:", errs_long)

bad = False
if bool(errs_short) != bool(errs_long):
    print("VIOLATION (C06): verdict changes under a consistent renaming of fragments")
    bad = True
if not errs_long:
    r1 = graphql_blocking(schema, long_, root=root).response()
    r2 = graphql_blocking(schema, long_swapped, root=root).response()
    print("validated document executes to           :", dict(r1["data"]))
    print("same document, the two spreads swapped   :", dict(r2["data"]))
    print("VIOLATION (C05/C06): response key 'x' stands for both field a and field b "
          "(FieldsInSetCanMerge broken) yet no validation error was reported")
    bad = True
sys.exit(1 if bad else 0)
