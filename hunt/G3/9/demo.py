"""C19: MaxDepthValidationRule raises CoercionError (instead of returning its list of errors) as soon
as @skip / @include is steered by a variable that is not in the raw `variables` mapping it was given -
which is always the case through process_graphql_query / graphql_blocking (variables are never
forwarded to validators) and for variables relying on their default value."""
import sys
from py_gql import build_schema, graphql_blocking
from py_gql.lang import parse
from py_gql.utilities.max_depth import MaxDepthValidationRule
from py_gql.validation import default_validator, validate_ast

schema = build_schema("""
type Human { name: String friends: [Human] }
type Query { a: String human: Human }
""")
root = {"a": "A", "human": {"name": "n", "friends": []}}
rule = MaxDepthValidationRule(2)
bad = False

def direct(doc, variables):
    global bad
    try:
        errs = rule(schema, parse(doc), variables)
        print("rule(%r, %r) -> %s" % (doc, variables, [str(e) for e in errs]))
        return errs
    except Exception as err:
        bad = True
        print("rule(%r, %r)\n    RAISED %s: %s" % (doc, variables, type(err).__name__, err))

# 1. variable with a default value, not provided: valid document, accepted variables, depth 1 <= 2
direct("query ($v: Boolean = false) { human @skip(if: $v) { name } }", {})
direct("query ($v: Boolean! = true) { human { name friends @include(if: $v) { name } } }", {})
# 2. no variables handed to the rule at all (what validate_ast does by default)
direct("query ($v: Boolean!) { human @skip(if: $v) { name } }", None)
# control: works when the raw value is present
direct("query ($v: Boolean!) { human @skip(if: $v) { name } }", {"v": False})

# 3. through the public entry point the rule can never see the variables
doc = "query ($v: Boolean!) { a @skip(if: $v) human { name } }"
try:
    r = graphql_blocking(schema, doc, variables={"v": True}, root=root,
                         validators=[default_validator, rule])
    print("graphql_blocking ->", r.response())
except Exception as err:
    bad = True
    print("graphql_blocking(%r, variables={'v': True}, validators=[default_validator, MaxDepthValidationRule(2)])"
          "\n    RAISED %s: %s" % (doc, type(err).__name__, err))
if bad:
    print("VIOLATION (C19): the operations above are flat or of depth 1 <= limit 2: the rule must report "
          "nothing and raise nothing.")
sys.exit(1 if bad else 0)
