"""C05: documents that the parser accepts make validate_ast raise RecursionError (moderately deep
nesting: the validating visitor burns ~7 Python frames per nesting level, the parser ~4)."""
import sys
from py_gql import build_schema, graphql_blocking
from py_gql.lang import parse
from py_gql.validation import validate_ast

schema = build_schema("input In { i: In  v: Int } type Query { q: Query  a: Int  f(x: In, l: [[[[Int]]]]): Int }")

def nested_fields(n): return "{ " + "q { " * n + "a" + " }" * n + " }"
def nested_objects(n): return "{ f(x: " + "{i: " * n + "{v: 1}" + "}" * n + ") }"

bad = False
for name, build in (("selection sets", nested_fields), ("input objects", nested_objects)):
    for n in range(20, 400, 10):
        doc = build(n)
        try:
            ast = parse(doc)
        except RecursionError:
            print("%s: parser gives up at nesting %d, no gap found" % (name, n)); break
        try:
            validate_ast(schema, ast)
        except RecursionError:
            bad = True
            print("VIOLATION (C05) %s nested %d deep (%d characters): parse() succeeds, "
                  "validate_ast RAISED RecursionError" % (name, n, len(doc)))
            try:
                graphql_blocking(schema, doc, root={})
            except RecursionError:
                print("     graphql_blocking RAISED RecursionError as well")
            break
sys.exit(1 if bad else 0)
