"""C06 (+C05): a list literal at a position whose type is not a list is accepted by validation."""
import sys
from py_gql import build_schema, graphql_blocking
from py_gql.lang import parse
from py_gql.validation import validate_ast

schema = build_schema("""
input Obj { a: Int }
type Query { a: String  i(x: Int): String  s(x: String!): String  o(x: Obj): String  li(x: [Int]): String }
""")
class Root:
    a = "A"
    def i(self, ctx, info, **kw): return repr(kw)
    s = o = li = i

bad = False
for doc in ('{ i(x: [1, 2]) }', '{ i(x: []) }', '{ s(x: ["a"]) }', '{ o(x: [{a: 1}]) }',
            '{ li(x: [[1]]) }', '{ a @skip(if: [true]) }'):
    errors = [str(e) for e in validate_ast(schema, parse(doc)).errors]
    if not errors:
        bad = True
        print("VIOLATION (C06 / rule 5.6.1 Values of Correct Type): %s validates without error" % doc)
        try:
            print("     execution ->", graphql_blocking(schema, doc, root=Root()).response())
        except Exception as err:
            print("     VIOLATION (C05): executing the validated document RAISED %s: %s"
                  % (type(err).__name__, err))
    else:
        print(doc, "->", errors)
sys.exit(1 if bad else 0)
