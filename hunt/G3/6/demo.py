"""C06: PossibleFragmentSpreads is not applied to a named fragment spread whose parent field
has a List or NonNull type."""
import sys
from py_gql import build_schema
from py_gql.lang import parse
from py_gql.validation import validate_ast

schema = build_schema("""
interface Pet { name: String }
type Dog implements Pet { name: String }
type Human { name: String }
type Query { pet: Pet  pets: [Pet]  petnn: Pet!  human: Human }
""")
FRAG = " fragment F on Human { name }"
bad = False
for sel in ("pet", "pets", "petnn"):
    spread = [str(e) for e in validate_ast(schema, parse("{ %s { ...F } }" % sel + FRAG)).errors]
    inline = [str(e) for e in validate_ast(schema, parse("{ %s { ... on Human { name } } }" % sel)).errors]
    print("%-6s named spread: %s" % (sel, spread))
    print("%-6s inline      : %s" % (sel, inline))
    if not spread:
        bad = True
        print("VIOLATION (5.5.2.3 Fragment spread is possible): Human can never be a Pet, "
              "yet '{ %s { ...F } }' validates" % sel)
sys.exit(1 if bad else 0)
