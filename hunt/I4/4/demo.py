"""C13: the resolver signature rule is not applied to subscription resolvers;
validate() gives the same verdict before and after register_subscription()."""
import asyncio
import sys

from py_gql import build_schema
from py_gql.exc import SchemaValidationError
from py_gql.execution import subscribe
from py_gql.execution.runtime import AsyncIORuntime
from py_gql.lang import parse


def verdict(schema):
    try:
        schema.validate()
        return "accepted"
    except SchemaValidationError as err:
        return "rejected (%s)" % err


SDL = """
type Query { a: Int }
type Subscription { ticks(n: Int!): Int }
"""


async def ticks(root, ctx, info):  # cannot receive the required argument "n"
    yield 1


def same_signature(root, ctx, info):
    return 1


# 1. as a subscription resolver
schema = build_schema(SDL)
before = verdict(schema)
schema.register_subscription("Subscription", "ticks", ticks)
after = verdict(schema)

# 2. the same signature registered as the field's resolver
control = build_schema(SDL)
control.register_resolver("Subscription", "ticks", same_signature)
control_verdict = verdict(control)


async def main():
    try:
        await subscribe(
            schema,
            parse("subscription { ticks(n: 3) }"),
            runtime=AsyncIORuntime(),
        )
        return "ok"
    except Exception as err:
        return "%s: %s" % (type(err).__name__, err)


outcome = asyncio.run(main())

print("validate() before register_subscription :", before)
print("validate() after  register_subscription :", after)
print("same signature as resolver (control)    :", control_verdict)
print("subscribe(subscription { ticks(n: 3) }) :", outcome)

if after == "accepted" and "TypeError" in outcome:
    print(
        "\nOBSERVED: validate() accepts a subscription resolver whose signature "
        "is incompatible with the field arguments; the first subscription "
        "fails with " + outcome
    )
    print(
        "EXPECTED (C13): the rule 'resolver signatures compatible with field "
        "arguments' rejects it (as it does for the identical signature "
        "registered with register_resolver), the verdict being recomputed "
        "after the registration."
    )
    sys.exit(1)
print("no defect")
