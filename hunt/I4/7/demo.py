"""C12: a string default of a string-only custom scalar (the library's own
RegexType) that looks like a number is printed as an Int literal, which that
very scalar refuses: the text cannot be built back with the same scalar."""
import sys

from py_gql import build_schema, graphql_blocking
from py_gql.exc import GraphQLError
from py_gql.schema import RegexType

Zip = RegexType("Zip", r"^[0-9]{5}$")

SDL = 'scalar Zip  type Query { near(zip: Zip = "75001"): Int }'

schema = build_schema(SDL, additional_types=[Zip])
schema.validate()
default = schema.types["Query"].fields[0].arguments[0].default_value
print("default value in the schema :", repr(default))

text = schema.to_string()
print("to_string():\n" + text)

intro = graphql_blocking(
    schema, '{ __type(name: "Query") { fields { args { defaultValue } } } }'
).response()
print("introspection defaultValue  :", intro["data"]["__type"]["fields"][0]["args"][0]["defaultValue"])

# the literal the printer chose is not a valid literal of the type
as_query = graphql_blocking(schema, "{ near(zip: 75001) }").response()
print("query using that literal    :", dict(as_query).get("errors"))

try:
    rebuilt = build_schema(text, additional_types=[Zip])
except GraphQLError as err:
    print("\nOBSERVED: the default \"75001\" is printed as `75001`; building the "
          "printed text with the same scalar fails: %s: %s" % (type(err).__name__, err))
    print('EXPECTED (C12): the text reads `near(zip: Zip = "75001"): Int` and '
          "builds back to a structurally identical schema (same default value).")
    sys.exit(1)

d2 = rebuilt.types["Query"].fields[0].arguments[0].default_value
if d2 != default:
    print("OBSERVED default after the round trip: %r" % (d2,))
    sys.exit(1)
print("no defect")
