"""C11: a valid document stops building (SchemaError: Duplicate type) as soon as
it contains any extension, when a schema directive is defined inline with an
argument of a type supplied through additional_types."""
import sys

from py_gql import build_schema
from py_gql.exc import GraphQLError
from py_gql.schema import Argument, Directive, EnumType
from py_gql.sdl import SchemaDirective

Role = EnumType("Role", [("ADMIN", 1), ("USER", 2)])

seen = []


class Auth(SchemaDirective):
    # documented alternative to a definition in the document
    definition = Directive(
        "auth",
        ["FIELD_DEFINITION"],
        args=[Argument("role", Role, default_value=1)],
    )

    def on_field(self, field):
        seen.append((field.name, self.args["role"]))
        return field


BASE = """
enum Role { ADMIN USER }
type Query {
    a: Int @auth(role: USER)
    me: Role
}
"""

EXTENDED = BASE + """
extend type Query { b: Int @auth }
"""

UNRELATED_EXTENSION = BASE + """
type Other { x: Int }
extend type Other { y: Int }
"""

failed = False
for label, sdl in (
    ("no extension", BASE),
    ("extension using the directive", EXTENDED),
    ("extension of an unrelated type", UNRELATED_EXTENSION),
):
    del seen[:]
    try:
        schema = build_schema(
            sdl, additional_types=[Role], schema_directives=[Auth]
        )
    except GraphQLError as err:
        failed = True
        print(
            "%-32s -> OBSERVED %s: %s" % (label, type(err).__name__, err)
        )
    else:
        print(
            "%-32s -> built, @auth applied to %r, fields %r"
            % (label, seen, [f.name for f in schema.types["Query"].fields])
        )

if failed:
    print(
        "EXPECTED (C11): the three documents satisfy the type-system rules, "
        "building succeeds for all of them (it did before commit 3b4430b) and "
        "the extension is merged into its target."
    )
    sys.exit(1)
print("no defect")
