"""C13: resolver signature check treats the *args / **kwargs parameter of a
resolver as an ordinary parameter when a field argument has the same name:
valid schema rejected (a), broken schema accepted (b)."""
import sys

from py_gql import build_schema
from py_gql.exc import SchemaValidationError
from py_gql.execution import execute
from py_gql.lang import parse

failures = []


def verdict(schema):
    try:
        schema.validate()
        return "accepted"
    except SchemaValidationError as err:
        return "REJECTED: %s" % err


def run(schema, query):
    # execute() does not validate the schema: shows what the resolver does
    try:
        return dict(execute(schema, parse(query)).response())
    except Exception as err:
        return "%s: %s" % (type(err).__name__, err)


# (a) false rejection ------------------------------------------------------
schema = build_schema("type Query { run(args: [String], dry: Boolean): String }")


def resolve_run(root, ctx, info, **args):  # collects every field argument
    return "run with %s" % sorted(args.items())


schema.register_resolver("Query", "run", resolve_run)

r1 = run(schema, '{ run(args: ["-v"], dry: true) }')
r2 = run(schema, "{ run }")
v = verdict(schema)
print("(a) def resolve_run(root, ctx, info, **args) for run(args: [String], dry: Boolean)")
print("    execution with the arguments   :", r1)
print("    execution without the arguments:", r2)
print("    validate()                     :", v)
if "errors" not in str(r1) and "errors" not in str(r2) and v != "accepted":
    failures.append(
        "(a) the resolver handles every call the executor can make, but "
        "validate() rejects the schema: " + v
    )

# (b) false acceptance -----------------------------------------------------
schema = build_schema("type Query { run(args: [String]!): String }")


def resolve_run2(*args):  # no keyword parameter at all
    return "never reached"


schema.register_resolver("Query", "run", resolve_run2)
v = verdict(schema)
r = run(schema, '{ run(args: ["-v"]) }')
print("(b) def resolve_run2(*args) for run(args: [String]!)")
print("    validate()                     :", v)
print("    execution                      :", r)
if v == "accepted" and "unexpected keyword" in str(r):
    failures.append(
        "(b) validate() accepts a resolver that cannot receive the argument "
        "(every request fails with TypeError: unexpected keyword argument "
        "'args'); with any other argument name the same resolver is reported "
        "('Missing resolver parameter for argument ...')"
    )

# control: same resolver, argument not named like the var-positional parameter
schema = build_schema("type Query { run(argv: [String]!): String }")
schema.register_resolver("Query", "run", resolve_run2)
print("    control, argument named argv   :", verdict(schema))

if failures:
    print("\nOBSERVED:")
    for f in failures:
        print("  -", f)
    print(
        "EXPECTED (C13): validation accepts every valid schema and rejects "
        "every resolver signature that is incompatible with the field arguments."
    )
    sys.exit(1)
print("no defect")
