"""C11: as soon as schema_directives is supplied (even an empty list or an
unrelated implementation), every other custom directive that the document
defines AND uses correctly makes build_schema fail with 'Unknown directive'."""
import sys

from py_gql import build_schema
from py_gql.exc import GraphQLError
from py_gql.sdl import SchemaDirective

SDL = """
directive @upper on FIELD_DEFINITION
directive @doc(url: String) on OBJECT | FIELD_DEFINITION

type Query @doc(url: "https://example.invalid/query") {
    a: String @upper
    b: Int @doc
}
"""


class Upper(SchemaDirective):
    definition = "upper"

    def on_field(self, field):
        return field


results = []
for label, kwargs in (
    ("schema_directives omitted", {}),
    ("schema_directives=[]", {"schema_directives": []}),
    ("schema_directives=[Upper]", {"schema_directives": [Upper]}),
):
    try:
        schema = build_schema(SDL, **kwargs)
        results.append((label, "built, directives: %s" % sorted(
            n for n in schema.directives if n not in ("skip", "include", "deprecated")
        )))
    except GraphQLError as err:
        results.append((label, "%s: %s" % (type(err).__name__, err)))

for label, res in results:
    print("%-28s -> %s" % (label, res))

if any("Unknown directive" in res for _, res in results):
    print(
        '\nOBSERVED: SDLError \'Unknown directive "@doc"\' although @doc is '
        "defined in the same document and used at a location and with an "
        "argument its definition allows (the document builds when "
        "schema_directives is omitted)."
    )
    print(
        "EXPECTED (C11): the document satisfies the type-system rules, so "
        "building succeeds whatever implementations are supplied; a directive "
        "without an implementation has no effect, its definition is part of "
        "the schema."
    )
    sys.exit(1)
print("no defect")
