"""C11: extend_schema() (strict mode) accepts an extension document that defines
the same new type / directive twice and silently keeps only the last one;
build_schema() rejects the same definitions with an SDL error."""
import sys

from py_gql import build_schema
from py_gql.exc import GraphQLError
from py_gql.sdl import extend_schema

base = build_schema("type Query { a: Int }")

DOCS = [
    (
        "type defined twice",
        "type New { a: Int }  type New { b: String }  extend type Query { n: New }",
    ),
    (
        "enum defined twice",
        "enum E { A }  enum E { B }  extend type Query { e: E }",
    ),
    (
        "directive defined twice",
        "directive @d(a: Int) on FIELD  directive @d(b: String) on QUERY",
    ),
]

failed = False
for label, doc in DOCS:
    # reference: the same definitions in a document given to build_schema
    try:
        build_schema("type Query { a: Int } " + doc)
        ref = "accepted"
    except GraphQLError as err:
        ref = "%s: %s" % (type(err).__name__, err)

    try:
        extended = extend_schema(base, doc, strict=True)
    except GraphQLError as err:
        print("%-24s extend_schema -> %s: %s" % (label, type(err).__name__, err))
    else:
        failed = True
        print("%-24s build_schema  -> %s" % (label, ref))
        print(
            "%-24s extend_schema -> ACCEPTED, result:\n    %s"
            % ("", extended.to_string().strip().replace("\n", "\n    "))
        )

if failed:
    print(
        "\nOBSERVED: duplicate definitions in the extension document are accepted "
        "(strict mode), the first definition is dropped without a word."
    )
    print(
        "EXPECTED (C11): a document that breaks the type-system rules (unique "
        "type / directive names) is rejected with one of the library's SDL / "
        "extension errors; the schema contains exactly what the SDL declares."
    )
    sys.exit(1)
print("no defect")
