"""C12: a valid schema whose custom scalar has list / object default values
cannot be serialised (ValueError), and the introspection query crashes."""
import sys

from py_gql import build_schema, graphql_blocking
from py_gql.lang import ast as _ast
from py_gql.schema import Argument, Field, ObjectType, ScalarType, Schema


def parse_literal(node, variables):
    if isinstance(node, _ast.ListValue):
        return [parse_literal(v, variables) for v in node.values]
    if isinstance(node, _ast.ObjectValue):
        return {
            f.name.value: parse_literal(f.value, variables) for f in node.fields
        }
    if isinstance(node, _ast.IntValue):
        return int(node.value)
    if isinstance(node, _ast.FloatValue):
        return float(node.value)
    if isinstance(node, _ast.NullValue):
        return None
    return node.value


JSON = ScalarType(
    "JSON",
    serialize=lambda v: v,
    parse=lambda v: v,
    parse_literal=parse_literal,
)

failures = []

# 1. SDL-built, the scalar implementation is supplied through additional_types
sdl_schema = build_schema(
    """
    scalar JSON
    type Query {
        search(filter: JSON = {tags: ["a", 1], nested: {}}, order: JSON = []): JSON
    }
    """,
    additional_types=[JSON],
)
sdl_schema.register_resolver(
    "Query", "search", lambda root, ctx, info, filter, order: filter
)

# 2. the same schema built in code
code_schema = Schema(
    ObjectType(
        "Query",
        [
            Field(
                "search",
                JSON,
                args=[
                    Argument(
                        "filter",
                        JSON,
                        default_value={"tags": ["a", 1], "nested": {}},
                    ),
                    Argument("order", JSON, default_value=[]),
                ],
                resolver=lambda root, ctx, info, filter, order: filter,
            )
        ],
    )
)

for label, schema in (("SDL-built", sdl_schema), ("code-built", code_schema)):
    schema.validate()  # the schema is valid
    args = schema.types["Query"].fields[0].arguments
    print("%s defaults: %r" % (label, [a.default_value for a in args]))
    print(
        "%s execution : %r"
        % (label, graphql_blocking(schema, "{ search }").response())
    )

    try:
        text = schema.to_string()
    except Exception as err:
        failures.append(
            "%s: to_string() raised %s: %s" % (label, type(err).__name__, err)
        )
    else:
        print(text)

    try:
        res = graphql_blocking(
            schema,
            '{ __type(name: "Query") { fields { args { name defaultValue } } } }',
        ).response()
        print("%s introspection: %r" % (label, res))
    except Exception as err:
        failures.append(
            "%s: introspection of defaultValue raised %s: %s (not even a field error)"
            % (label, type(err).__name__, err)
        )

if failures:
    print("\nOBSERVED:")
    for f in failures:
        print("  -", f)
    print(
        "EXPECTED (C12): every valid schema is serialised to SDL text the parser "
        'accepts, e.g. `search(filter: JSON = {tags: ["a", 1], nested: {}}, '
        "order: JSON = []): JSON`"
    )
    sys.exit(1)

print("no defect")
