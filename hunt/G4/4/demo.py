r"""
C12: descriptions which the printer does not re-wrap (short lines) but which
end with a backslash, contain a vertical tab / form feed, start with an
indented first line, or start / end with a blank line are not serialised
faithfully: the SDL is either rejected by the parser or rebuilds a different
description.

All inputs are ordinary SDL documents (regular "..." string descriptions).

Run: PYTHONPATH=/repo/src /venv/bin/python demo.py
"""
import sys

from py_gql.sdl import build_schema

# (label, SDL string literal used as the description of type Query)
CASES = [
    ("ends with a backslash", r'"C:\\temp\\"'),
    ("is a single backslash", r'"\\"'),
    ("contains a form feed (\\u000C)", r'"page1\u000Cpage2"'),
    ("indented multi-line", r'"  a\n  b"'),
    ("starts with a blank line", r'"\nabc"'),
    ("ends with a blank line", r'"abc\n"'),
    ("is a single space", r'" "'),
]

failures = []
for label, literal in CASES:
    sdl = "%s\ntype Query { a: Int }" % literal
    s1 = build_schema(sdl)
    d1 = s1.types["Query"].description
    text = s1.to_string()
    try:
        s2 = build_schema(text)
    except Exception as err:  # noqa
        failures.append(
            "description %s (%r): printed SDL is rejected by the parser with %s\n"
            "      printed: %r" % (label, d1, type(err).__name__, text)
        )
        continue
    d2 = s2.types["Query"].description
    if d2 != d1:
        failures.append(
            "description %s: %r became %r after schema -> SDL -> schema "
            "(second print differs: %s)"
            % (label, d1, d2, s2.to_string() != text)
        )

if failures:
    print("C12 VIOLATED: description round trip")
    for f in failures:
        print(" -", f)
    sys.exit(1)
print("OK")
