"""
C11 / C13: `type A implements B` where B is NOT an interface type is either
accepted (B an object type) or crashes with AttributeError / TypeError
(B a scalar, enum, union or input object) instead of being rejected with a
schema / SDL error.

Run: PYTHONPATH=/repo/src /venv/bin/python demo.py
"""
import sys

from py_gql.exc import SchemaError, SDLError
from py_gql.schema import Field, Int, ObjectType, Schema
from py_gql.schema.validation import validate_schema
from py_gql.sdl import build_schema

CASES = [
    ("object", "type B { x: Int }  type A implements B { x: Int }"),
    ("scalar", "scalar B           type A implements B { x: Int }"),
    ("enum", "enum B { V }       type A implements B { x: Int }"),
    ("union", "union B = Query    type A implements B { x: Int }"),
    ("input object", "input B { x: Int } type A implements B { x: Int }"),
]

failures = []

for kind, sdl in CASES:
    sdl += " type Query { a: A }"
    try:
        schema = build_schema(sdl)
    except (SchemaError, SDLError) as err:
        print("ok   implements %-12s -> %s" % (kind, type(err).__name__))
    except Exception as err:  # noqa
        failures.append(
            "implements %s: build_schema raised the unrelated %s(%s); expected a "
            "schema / SDL error" % (kind, type(err).__name__, err)
        )
    else:
        failures.append(
            "implements %s: build_schema ACCEPTED the document; "
            "A.interfaces=%r, schema.implementations=%r"
            % (kind, schema.types["A"].interfaces, dict(schema.implementations))
        )

# Same thing for a code-built schema and validate_schema() (C13).
B = ObjectType("B", [Field("x", Int)])
A = ObjectType("A", [Field("x", Int)], interfaces=[B])
schema = Schema(ObjectType("Query", [Field("a", A)]))
try:
    validate_schema(schema)
except SchemaError:
    print("ok   code-built schema rejected")
else:
    failures.append(
        "code-built: validate_schema accepted ObjectType A with "
        "interfaces=[ObjectType B]"
    )

if failures:
    print("VIOLATED: an object type may only implement interface types")
    for f in failures:
        print(" -", f)
    sys.exit(1)
print("OK")
