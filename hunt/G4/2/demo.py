"""
C14 / C12 / C15: default values of input-object type are keyed by the input
fields' ``python_name`` (that is how value_from_ast / coerce_value build them
and how resolvers receive them) but ast_node_from_value looks them up by the
GraphQL ``name``.  As soon as the two differ (CamelCaseSchemaTransform, or a
code-built InputField(python_name=...)) the printer and introspection report a
wrong default or crash.

Run: PYTHONPATH=/repo/src /venv/bin/python demo.py
"""
import sys

from py_gql import graphql_blocking
from py_gql.schema import (
    Argument,
    Field,
    InputField,
    InputObjectType,
    Int,
    ObjectType,
    Schema,
    String,
)
from py_gql.schema.transforms import CamelCaseSchemaTransform, transform_schema
from py_gql.sdl import build_schema

failures = []
INTRO = '{ __type(name: "Query") { fields { args { name defaultValue } } } }'


def attempt(label, fn):
    try:
        return fn()
    except Exception as err:  # noqa
        failures.append("%s raised %s: %s" % (label, type(err).__name__, err))
        return None


# 1. Optional fields: the default silently becomes `{}` --------------------
source = build_schema(
    """
    input Inp { some_field: Int, other_field: Int = 3 }
    type Query { f(the_arg: Inp = {some_field: 1}): String }
    """
)
source.register_resolver(
    "Query", "f", lambda root, ctx, info, **kw: repr(sorted(kw["the_arg"].items()))
)
camel = transform_schema(source, CamelCaseSchemaTransform())

runtime = graphql_blocking(camel, "{ f }").response()["data"]["f"]
printed = attempt("to_string (optional fields)", camel.to_string)
intro = attempt(
    "introspection (optional fields)",
    lambda: graphql_blocking(camel, INTRO).response(),
)
if printed is not None and "theArg: Inp = {someField: 1, otherField: 3}" not in printed:
    failures.append(
        "camel-cased schema: resolver receives the default %s but the SDL says\n%s"
        % (runtime, printed)
    )
if intro is not None:
    dv = intro["data"]["__type"]["fields"][0]["args"][0]["defaultValue"]
    if dv != "{someField: 1, otherField: 3}":
        failures.append(
            "camel-cased schema: introspection defaultValue is %r, expected "
            "'{someField: 1, otherField: 3}' (runtime default: %s)" % (dv, runtime)
        )

# 2. Required field: printing and introspection crash -----------------------
source = build_schema(
    """
    input Inp { some_field: Int! }
    type Query { f(the_arg: Inp = {some_field: 1}): String }
    """
)
camel = transform_schema(source, CamelCaseSchemaTransform())
attempt("to_string (required field)", camel.to_string)
res = attempt(
    "graphql_blocking(introspection) (required field)",
    lambda: graphql_blocking(camel, INTRO).response(),
)

# 3. Code-built schema with python_name, no transform at all ---------------
Inp = InputObjectType(
    "Inp", [InputField("someThing", Int, default_value=2, python_name="some_thing")]
)
schema = Schema(
    ObjectType(
        "Query",
        [
            Field(
                "f",
                String,
                args=[Argument("i", Inp, default_value={"some_thing": 5})],
                resolver=lambda root, ctx, info, **kw: repr(kw["i"]),
            )
        ],
    )
)
schema.validate()
runtime = graphql_blocking(schema, "{ f }").response()["data"]["f"]
printed = attempt("to_string (code-built)", schema.to_string)
if printed is not None and "f(i: Inp = {someThing: 5})" not in printed:
    failures.append(
        "code-built schema: resolver receives %s but the SDL says %r"
        % (runtime, [l for l in printed.split("\n") if "f(" in l][0].strip())
    )

if failures:
    print("VIOLATED (C14 preserved defaults / C12 round trip / C15 defaultValue):")
    for f in failures:
        print(" -", f)
    sys.exit(1)
print("OK")
