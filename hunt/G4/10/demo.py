"""
C11: valid documents with recursive input object types whose default value
mentions the type being defined are not built: RecursionError.  The defaults
below are finite and fully specified (the recursive field is explicitly
null / []), so they coerce to a well-defined value.

Run: PYTHONPATH=/repo/src /venv/bin/python demo.py
"""
import sys

from py_gql.sdl import build_schema

CASES = [
    (
        "control: recursive input, default elsewhere",
        "input Filter { eq: Int, not: Filter } type Query { f(x: Filter = {not: {eq: 1}}): Int }",
        ("Query", None),
        None,
    ),
    (
        "self-referencing default",
        "input Filter { eq: Int, not: Filter = {eq: 0, not: null} } type Query { f(x: Filter): Int }",
        ("Filter", "not"),
        {"eq": 0, "not": None},
    ),
    (
        "self-referencing list default",
        "input Filter { eq: Int, and: [Filter!] = [{eq: 1, and: []}] } type Query { f(x: Filter): Int }",
        ("Filter", "and"),
        [{"eq": 1, "and": []}],
    ),
    (
        "mutually recursive defaults",
        "input A { n: Int, b: B = {n: 1, a: null} } input B { n: Int, a: A = {n: 2, b: null} } "
        "type Query { f(x: A): Int }",
        ("A", "b"),
        {"n": 1, "a": None},
    ),
]

failures = []
for label, sdl, (tname, fname), expected in CASES:
    try:
        schema = build_schema(sdl)
    except BaseException as err:  # noqa
        failures.append("%s: %r -> %s: %s" % (label, sdl, type(err).__name__, str(err)[:50]))
        continue
    if fname is not None:
        got = schema.types[tname].field_map[fname].default_value
        if got != expected:
            failures.append("%s: default is %r, expected %r" % (label, got, expected))
            continue
    print("ok  ", label)

if failures:
    print("C11 VIOLATED: valid recursive input types must build, with their defaults coerced")
    for f in failures:
        print(" -", f)
    sys.exit(1)
print("OK")
