"""
C12: string default values of custom scalar type are "sniffed" by the printer:
anything Python's float() accepts is printed as a number (or as a bare word for
nan / inf), so the rebuilt schema has a different default or cannot be built.

Run: PYTHONPATH=/repo/src /venv/bin/python demo.py
"""
import sys

from py_gql.sdl import build_schema

DEFAULTS = ['"nan"', '"Infinity"', '"0612345678"', '"1e5"', '"1_000"', '" 12 "', '"1.50"']

failures = []
for literal in DEFAULTS:
    sdl = "scalar Code\ntype Query { a(x: Code = %s): Int }" % literal
    s1 = build_schema(sdl)
    d1 = s1.types["Query"].field_map["a"].argument_map["x"].default_value
    text = s1.to_string()
    line = [l.strip() for l in text.split("\n") if "a(x" in l][0]
    try:
        s2 = build_schema(text)
    except Exception as err:  # noqa
        failures.append(
            "x: Code = %s (python %r) printed as %r which build_schema rejects: %s: %s"
            % (literal, d1, line, type(err).__name__, err)
        )
        continue
    d2 = s2.types["Query"].field_map["a"].argument_map["x"].default_value
    if d2 != d1:
        failures.append(
            "x: Code = %s: default %r became %r after schema -> SDL -> schema "
            "(printed %r)" % (literal, d1, d2, line)
        )

if failures:
    print("C12 VIOLATED: default values of custom scalars are not preserved")
    for f in failures:
        print(" -", f)
    sys.exit(1)
print("OK")
