"""
C14: extend_schema() rebuilds EVERY custom scalar of the source schema as a
plain ``ScalarType`` from the private ``_serialize`` / ``_parse`` /
``_parse_literal`` callables - also when the extension document does not
mention the scalar.  A scalar implemented the documented way ("subclass this
class and implement serialize, parse and parse_literal") loses its behaviour.

Run: PYTHONPATH=/repo/src /venv/bin/python demo.py
"""
import sys

from py_gql import graphql_blocking
from py_gql.schema import Argument, Field, ObjectType, ScalarType, Schema, String
from py_gql.sdl import extend_schema


class Money(ScalarType):
    """Cents <-> "12.34" strings; implemented by overriding the public methods."""

    def __init__(self):
        super().__init__("Money", serialize=lambda v: v, parse=lambda v: v)

    def serialize(self, value):
        return "%d.%02d" % divmod(value, 100)

    def parse(self, value):
        units, cents = str(value).split(".")
        return int(units) * 100 + int(cents)

    def parse_literal(self, node, variables=None):
        return self.parse(node.value)


money = Money()
seen = []


def resolve_price(root, ctx, info, **args):
    seen.append(args.get("minimum"))
    return 1234


source = Schema(
    ObjectType(
        "Query",
        [
            Field("price", money, args=[Argument("minimum", money)], resolver=resolve_price),
            Field("other", String),
        ],
    )
)
source.validate()

QUERY = '{ price(minimum: "10.50") }'
expected = graphql_blocking(source, QUERY).response()
expected_seen = list(seen)
assert expected == {"data": {"price": "12.34"}} and expected_seen == [1050]

# The extension does not target Money (nor Query.price) at all.
extended = extend_schema(source, "extend type Query { extra: Int }")

del seen[:]
got = graphql_blocking(extended, QUERY).response()

problems = []
if type(extended.types["Money"]) is not Money:
    problems.append(
        "type(extended.types['Money']) is %s, the source has %s"
        % (type(extended.types["Money"]).__name__, type(source.types["Money"]).__name__)
    )
if got != expected:
    problems.append("%s -> %r, the source schema answers %r" % (QUERY, dict(got.get("data") or got), dict(expected["data"])))
if seen != expected_seen:
    problems.append("resolver received minimum=%r, with the source schema %r" % (seen, expected_seen))

if problems:
    print("C14 VIOLATED: extend_schema changed a scalar it did not target")
    for p in problems:
        print(" -", p)
    sys.exit(1)
print("OK")
