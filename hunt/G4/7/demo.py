"""
C14: the schema-level default resolver (set the documented way:
``schema.default_resolver = fn``, docs/usage/defining-resolvers.rst) is dropped
by Schema.clone(), transform_schema() and extend_schema(); fields silently
resolve to null in the derived schema.

Run: PYTHONPATH=/repo/src /venv/bin/python demo.py
"""
import sys

from py_gql import graphql_blocking
from py_gql.schema import SchemaVisitor
from py_gql.schema.transforms import transform_schema
from py_gql.sdl import build_schema, extend_schema

source = build_schema("type Query { a(x: Int): Int, b: Int }")


def default_resolver(root, ctx, info, **args):
    return 42


source.default_resolver = default_resolver
source.validate()

expected = graphql_blocking(source, "{ a b }").response()
assert expected["data"] == {"a": 42, "b": 42}, expected

derived = {
    "Schema.clone()": source.clone(),
    "transform_schema(identity)": transform_schema(source, SchemaVisitor()),
    "extend_schema('extend type Query { c: Int }')": extend_schema(
        source, "extend type Query { c: Int }"
    ),
}

failures = []
for label, schema in derived.items():
    got = graphql_blocking(schema, "{ a b }").response()
    if schema.default_resolver is not default_resolver or got != expected:
        failures.append(
            "%s: default_resolver=%r, '{ a b }' -> %r (source: %r)"
            % (label, schema.default_resolver, dict(got["data"]), dict(expected["data"]))
        )

if failures:
    print("C14 VIOLATED: the schema default resolver is not preserved")
    for f in failures:
        print(" -", f)
    sys.exit(1)
print("OK")
