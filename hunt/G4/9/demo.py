"""
C11: invalid documents which use an output type in an input position are not
always rejected with a schema / SDL error:

- an argument whose (output) type is the enclosing type, or leads back to it,
  sends the eager argument builder into unbounded recursion -> RecursionError;
- an input field / directive argument of output type carrying a default value
  -> TypeError from value_from_ast.

(The control case shows the same rule violation being reported properly.)

Run: PYTHONPATH=/repo/src /venv/bin/python demo.py
"""
import sys

from py_gql.exc import SchemaError, SDLError
from py_gql.sdl import build_schema

CASES = [
    # control: properly reported
    ("control: argument of another object type", "type T { b: Int } type Query { a(x: T): Int }"),
    ("argument of the enclosing object type", "type Query { a(x: Query): Int }"),
    ("argument leading back to the enclosing type", "type T { q(y: Query): Int } type Query { a(x: T): Int }"),
    ("argument of object type with default", "type Query { a(x: Query = 1): Int }"),
    ("argument of [object!] type with default", "type Query { a(x: [Query!] = []): Int }"),
    (
        "argument of interface type with default",
        "interface I { a(x: I = 1): Int } type Query implements I { a(x: I = 1): Int }",
    ),
    (
        "input field of object type with default",
        "input In { f: Query = 1 } type Query { a(x: In): Int }",
    ),
    (
        "directive argument of union type with default",
        "union U = Query directive @d(x: U = 1) on FIELD type Query { a: Int }",
    ),
]

failures = []
for label, sdl in CASES:
    try:
        build_schema(sdl)
    except (SchemaError, SDLError) as err:
        print("ok   %-45s -> %s" % (label, type(err).__name__))
    except BaseException as err:  # noqa
        failures.append(
            "%s: %r -> %s(%s)" % (label, sdl, type(err).__name__, str(err)[:60])
        )
    else:
        failures.append("%s: %r was ACCEPTED" % (label, sdl))

if failures:
    print("C11 VIOLATED: expected a schema / SDL error (e.g. 'Expected input type "
          "for argument \"x\" ...'), got an unrelated exception:")
    for f in failures:
        print(" -", f)
    sys.exit(1)
print("OK")
