"""
C14: a schema produced by a visitor-based transform that replaces the resolver
of a field registered through register_resolver() (resolver-wrapping visitor,
or a SchemaDirective applied with apply_schema_directives) can neither be cloned
nor transformed again: ValueError 'Field "a" of type "Query" already has a
resolver.'

Run: PYTHONPATH=/repo/src /venv/bin/python demo.py
"""
import sys

from py_gql import graphql_blocking
from py_gql.schema import Field, SchemaVisitor
from py_gql.schema.transforms import CamelCaseSchemaTransform, transform_schema
from py_gql.sdl import SchemaDirective, apply_schema_directives, build_schema


def wrap(field):
    inner = field.resolver

    def wrapped(root, ctx, info, **kw):
        return "wrapped:%s" % inner(root, ctx, info, **kw)

    return Field(
        field.name,
        field.type,
        args=field.arguments,
        resolver=wrapped,
        description=field.description,
        deprecation_reason=field.deprecation_reason,
        node=field.node,
        python_name=field.python_name,
    )


class WrapResolvers(SchemaVisitor):
    def on_field(self, field):
        field = super().on_field(field)
        return wrap(field) if field.resolver is not None else field


class Upper(SchemaDirective):
    definition = "wrap"

    def on_field(self, field):
        return wrap(field)


failures = []


def check(label, make):
    try:
        derived = make()
        res = graphql_blocking(derived, "{ some_field }").response()
        if "wrapped:A" not in str(res):
            res2 = graphql_blocking(derived, "{ someField }").response()
            if "wrapped:A" not in str(res2):
                failures.append("%s: unexpected answer %r / %r" % (label, res, res2))
    except Exception as err:  # noqa
        failures.append("%s raised %s: %s" % (label, type(err).__name__, err))


# 1. visitor-based transform -------------------------------------------------
source = build_schema("type Query { some_field: String }")
source.register_resolver("Query", "some_field", lambda *a, **k: "A")
first = transform_schema(source, WrapResolvers())
assert graphql_blocking(first, "{ some_field }").response()["data"] == {
    "some_field": "wrapped:A"
}
check("clone() of the transformed schema", first.clone)
check(
    "transform_schema(transformed, CamelCaseSchemaTransform())",
    lambda: transform_schema(first, CamelCaseSchemaTransform()),
)

# 2. schema directive ----------------------------------------------------------
source = build_schema(
    "directive @wrap on FIELD_DEFINITION  type Query { some_field: String @wrap }"
)
source.register_resolver("Query", "some_field", lambda *a, **k: "A")
with_directive = apply_schema_directives(source, [Upper])
assert graphql_blocking(with_directive, "{ some_field }").response()["data"] == {
    "some_field": "wrapped:A"
}
check("clone() after apply_schema_directives", with_directive.clone)

if failures:
    print("C14 VIOLATED: the transformed schema cannot be cloned / transformed again")
    for f in failures:
        print(" -", f)
    sys.exit(1)
print("OK")
