"""
C12: the SDL produced with the printer option include_introspection=True is not
accepted by build_schema: the text contains the definitions of @include, @skip
and @deprecated, which Schema() refuses ("Cannot override specified directive"),
although the (equally specified) introspection types and scalars in the same
text are tolerated.

Run: PYTHONPATH=/repo/src /venv/bin/python demo.py
"""
import sys

from py_gql.sdl import build_schema

schema = build_schema("type Query { a: Int }")
text = schema.to_string(include_introspection=True)

try:
    rebuilt = build_schema(text)
except Exception as err:  # noqa
    print("C12 VIOLATED: to_string(include_introspection=True) is not a valid input")
    print(" - first lines of the text:")
    for line in text.split("\n")[:8]:
        print("     ", line)
    print(" - build_schema(text) raised %s: %s" % (type(err).__name__, err))
    print(" - expected: a structurally identical schema whose serialisation is the same text")
    sys.exit(1)

if rebuilt.to_string(include_introspection=True) != text:
    print("C12 VIOLATED: not a fix-point")
    sys.exit(1)
print("OK")
