"""
C14: Schema.clone() / transform_schema() drop every type that is not reachable
from a root operation type (interface implementations, directive argument
types, orphan types listed in the schema).

Run: PYTHONPATH=/repo/src /venv/bin/python demo.py
"""
import sys

from py_gql import graphql_blocking
from py_gql.schema import SchemaVisitor
from py_gql.schema.transforms import transform_schema
from py_gql.sdl import build_schema

SDL = """
directive @foo(arg: Inp) on FIELD

interface Node { id: ID }

type User implements Node { id: ID, name: String }

type Orphan { x: Int }

input Inp { a: Int }

type Query { node: Node }
"""

failures = []


def user_types(schema):
    return sorted(
        n
        for n in schema.types
        if not n.startswith("__")
        and n not in ("Int", "Float", "String", "Boolean", "ID")
    )


source = build_schema(SDL)
source.register_resolver("Query", "node", lambda *_: {"id": "1"})
source.types["Node"].resolve_type = lambda *_: "User"

expected_types = user_types(source)
expected_text = source.to_string()

for label, derived in (
    ("Schema.clone()", source.clone()),
    # A transform which does not touch anything (identity visitor).
    ("transform_schema(identity)", transform_schema(source, SchemaVisitor())),
):
    got = user_types(derived)
    if got != expected_types:
        failures.append(
            "%s: types %r expected, got %r (lost: %r)"
            % (label, expected_types, got, sorted(set(expected_types) - set(got)))
        )

    foo_args = [a.name for a in derived.directives["foo"].arguments]
    if foo_args != ["arg"]:
        failures.append(
            "%s: directive @foo(arg: Inp) has arguments %r, expected ['arg']"
            % (label, foo_args)
        )

    if derived.to_string() != expected_text:
        failures.append(
            "%s: SDL differs from the source although nothing was targeted:\n%s"
            % (label, derived.to_string())
        )

    query = "{ node { id ... on User { name } } }"
    src_res = graphql_blocking(source, query).response()
    res = graphql_blocking(derived, query).response()
    if res != src_res:
        failures.append(
            "%s: query %s gives %r, the source schema gives %r"
            % (label, query, res, src_res)
        )

    intro = "{ __type(name: \"Node\") { possibleTypes { name } } }"
    src_res = graphql_blocking(source, intro).response()
    res = graphql_blocking(derived, intro).response()
    if res != src_res:
        failures.append(
            "%s: introspection %s gives %r, the source schema gives %r"
            % (label, intro, res, src_res)
        )

if failures:
    print("C14 VIOLATED: cloning / transforming does not preserve the schema")
    for f in failures:
        print(" -", f)
    sys.exit(1)

print("OK")
