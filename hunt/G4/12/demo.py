"""
C13: violations are not all reported together: as soon as a type has an
ill-formed name, every other rule violation inside that type (no fields, no
members, output type in an input position, duplicate members ...) is skipped.
Fixing the reported error and validating again reveals the next batch.

Run: PYTHONPATH=/repo/src /venv/bin/python demo.py
"""
import sys

from py_gql.exc import SchemaValidationError
from py_gql.schema import (
    Argument,
    EnumType,
    Field,
    InputField,
    InputObjectType,
    Int,
    ObjectType,
    Schema,
    UnionType,
)


def build(prefix):
    obj = ObjectType(prefix + "Obj", [])  # no field
    union = UnionType(prefix + "Union", [])  # no member
    enum = EnumType(prefix + "Enum", [])  # no value
    inp = InputObjectType(prefix + "Input", [InputField("x", obj)])  # output type
    return Schema(
        ObjectType(
            "Query",
            [
                Field("o", obj),
                Field("u", union),
                Field("e", enum, args=[Argument("i", inp)]),
            ],
        )
    )


def messages(schema):
    try:
        schema.validate()
    except SchemaValidationError as err:
        return sorted(str(e) for e in err.errors)
    return []


good_names = messages(build("Ok"))
bad_names = messages(build("__"))

print("violations reported with well-formed names (%d):" % len(good_names))
for m in good_names:
    print("   ", m)
print("violations reported when the same types are named __Obj, __Union ... (%d):" % len(bad_names))
for m in bad_names:
    print("   ", m)

expected = len(good_names) + 4  # the same 4 violations + 4 ill-formed names
if len(bad_names) != expected:
    print(
        "C13 VIOLATED: expected %d violations reported together (4 invalid names + "
        "the %d structural ones), got %d" % (expected, len(good_names), len(bad_names))
    )
    sys.exit(1)
print("OK")
