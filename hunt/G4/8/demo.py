"""
C13: the memoised validation verdict is not recomputed after the schema-level
default resolver is (re)assigned the documented way
(``schema.default_resolver = fn``): validate() keeps saying "valid" although a
fresh validation reports the resolver as incompatible with every field, and the
first query blows up.

Run: PYTHONPATH=/repo/src /venv/bin/python demo.py
"""
import sys

from py_gql import graphql_blocking
from py_gql.exc import SchemaError
from py_gql.schema.validation import validate_schema
from py_gql.sdl import build_schema

schema = build_schema("type Query { a(x: Int): Int }")
schema.validate()  # valid, verdict memoised


def bad_default(root):  # wrong arity, does not accept the argument `x`
    return 1


schema.default_resolver = bad_default

try:
    schema.validate()
    memoised = "accepted"
except SchemaError as err:
    memoised = "rejected"

try:
    validate_schema(schema)
    fresh = "accepted"
except SchemaError as err:
    fresh = "rejected: %s" % str(err).split(",\n")[-1]

# For comparison: the registration API does invalidate the verdict.
schema2 = build_schema("type Query { a(x: Int): Int }")
schema2.validate()
schema2.register_resolver("Query", "a", bad_default)
try:
    schema2.validate()
    via_register = "accepted"
except SchemaError:
    via_register = "rejected"

print("schema.validate() after `schema.default_resolver = bad`:", memoised)
print("fresh validate_schema(schema):", fresh)
print("schema.validate() after register_resolver(bad):", via_register)

if memoised == "accepted" and fresh != "accepted":
    try:
        res = graphql_blocking(schema, "{ a }").response()
    except Exception as err:  # noqa
        res = "raised %s: %s" % (type(err).__name__, err)
    print("query '{ a }' on the 'valid' schema:", res)
    print(
        "C13 VIOLATED: the verdict was not recomputed after the default resolver "
        "was reassigned (expected SchemaValidationError)"
    )
    sys.exit(1)
print("OK")
