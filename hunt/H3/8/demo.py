"""
C07 (and C05): a custom scalar whose literal parser accepts list / object
literals (the classic JSON scalar). Validation accepts the literal (it asks the
scalar's parse_literal), execution refuses it: value_from_ast only lets Int,
Float, String and Boolean literals reach a scalar. The same value through a
variable is accepted, so inline and variable do not give the resolver the same
arguments; a validated operation can only fail.

Run: PYTHONPATH=/repo/src /venv/bin/python demo.py
"""
import sys

from py_gql import build_schema, graphql_blocking
from py_gql.lang import parse
from py_gql.schema import ScalarType
from py_gql.utilities import untyped_value_from_ast
from py_gql.validation import validate_ast

JSON = ScalarType(
    "JSON",
    serialize=lambda v: v,
    parse=lambda v: v,
    parse_literal=lambda node, variables: untyped_value_from_ast(node, variables),
)

schema = build_schema(
    """
    scalar JSON
    type Query { f(j: JSON): String }
    """,
    additional_types=[JSON],
)
received = []


def resolver(root, ctx, info, **args):
    received.append(args)
    return "ok"


schema.register_resolver("Query", "f", resolver)


def run(doc, variables=None):
    del received[:]
    errors = validate_ast(schema, parse(doc), variables=variables).errors
    result = graphql_blocking(schema, doc, variables=variables)
    return errors, (received[0] if received else None), result.response()


EXPECTED = {"j": [1, {"a": 2}]}
CASES = [
    ("inline literal", "{ f(j: [1, {a: 2}]) }", None),
    ("variable", "query ($v: JSON) { f(j: $v) }", {"v": [1, {"a": 2}]}),
    ("variable default", "query ($v: JSON = [1, {a: 2}]) { f(j: $v) }", {}),
    ("inline object", "{ f(j: {a: 2}) }", None),
]

bad = 0
for label, doc, variables in CASES:
    errors, args, response = run(doc, variables)
    expected = {"j": {"a": 2}} if label == "inline object" else EXPECTED
    ok = errors == [] and args == expected
    print("%s %-17s %s" % ("ok  " if ok else "FAIL", label, doc))
    print("      validation errors :", [str(e) for e in errors])
    print("      resolver received :", args)
    if not ok:
        bad += 1
        print("      response          :", response)
        print("      expected          : resolver called with", expected)

if bad:
    print(
        "\n%d case(s): validation reports no error but the argument is refused "
        "before the resolver runs; the value supplied through a variable is "
        "accepted, the same value supplied inline (or as a variable default) "
        "is not." % bad
    )
    sys.exit(1)
print("no defect observed")
