"""
C07: declared defaults of an *extended* input type are not filled in (and
defaults naming extension members make build_schema crash): SDL default values
are evaluated against the un-extended types and kept as is by the extension.

Run: PYTHONPATH=/repo/src /venv/bin/python demo.py
"""
import sys

from py_gql import build_schema, graphql_blocking

problems = []


def make(sdl):
    schema = build_schema(sdl)
    received = []

    def resolver(root, ctx, info, **args):
        received.append(args)
        return "ok"

    schema.register_resolver("Query", "f", resolver)

    def run(doc, variables=None):
        del received[:]
        result = graphql_blocking(schema, doc, variables=variables)
        assert not result.errors, result.errors
        return received[0]

    return run


# 1. argument default `{}` of an input type extended with a defaulted field
run = make(
    """
    type Query { f(in: In = {}): String }
    input In { a: Int = 1 }
    extend input In { b: Int = 2 }
    """
)
omitted = run("{ f }")
explicit = run("{ f(in: {}) }")
via_var = run("query ($v: In = {}) { f(in: $v) }")
print("argument omitted       ->", omitted)
print("argument `{}` inline   ->", explicit)
print("variable default `{}`  ->", via_var)
if omitted != {"in": {"a": 1, "b": 2}}:
    problems.append(
        "omitted argument with default `{}`: resolver received %r, expected "
        "{'in': {'a': 1, 'b': 2}} (declared default of In.b not filled in; the "
        "same `{}` written inline gives %r)" % (omitted, explicit)
    )

# 2. input field default `{}` of an extended input type: never completed, even
#    for an explicit value
run = make(
    """
    type Query { f(in: Out): String }
    input Out { i: In = {} }
    input In { a: Int = 1 }
    extend input In { b: Int = 2 }
    """
)
nested = run("{ f(in: {}) }")
nested_var = run("query ($v: Out) { f(in: $v) }", {"v": {}})
print("Out literal `{}`       ->", nested)
print("Out variable {}        ->", nested_var)
for label, value in (("literal", nested), ("variable", nested_var)):
    if value != {"in": {"i": {"a": 1, "b": 2}}}:
        problems.append(
            "Out.i default `{}` (%s): resolver received %r, expected "
            "{'in': {'i': {'a': 1, 'b': 2}}}" % (label, value)
        )

# 3. a default naming a member added by an extension: valid SDL, build crashes
for label, sdl in (
    (
        "input field added by extension",
        """
        type Query { f(in: In = {b: 3}): String }
        input In { a: Int = 1 }
        extend input In { b: Int = 2 }
        """,
    ),
    (
        "enum value added by extension",
        """
        type Query { f(e: E = B): String }
        enum E { A }
        extend enum E { B }
        """,
    ),
):
    try:
        run = make(sdl)
        print(label, "->", run("{ f }"))
    except Exception as err:  # noqa
        print(label, "-> build_schema raised %s: %s" % (type(err).__name__, err))
        problems.append(
            "default using an %s: build_schema raised %s(%s) for a valid SDL "
            "document" % (label, type(err).__name__, err)
        )

if problems:
    print("\nDEFECTS:")
    for p in problems:
        print(" -", p)
    sys.exit(1)
print("no defect observed")
