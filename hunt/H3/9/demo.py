"""
C06: the field-merging rule (5.3.2, SameResponseShape) ignores `__typename`:
under the same response key it may be combined with a field of any other
shape in mutually exclusive object types, and no error is reported.

Run: PYTHONPATH=/repo/src /venv/bin/python demo.py
"""
import sys

from py_gql import build_schema, graphql_blocking
from py_gql.lang import parse
from py_gql.validation import validate_ast

schema = build_schema(
    """
    interface Pet { name: String }
    type Dog implements Pet { name: String  age: Int  friends: [Dog] }
    type Cat implements Pet { name: String  lives: Int }
    type Query { pets: [Pet] }
    """
)


def verdict(doc):
    return [str(e)[:110] for e in validate_ast(schema, parse(doc)).errors]


CASES = [
    # control: two ordinary fields of different shapes are reported
    ("{ pets { ... on Dog { x: name } ... on Cat { x: lives } } }", False),
    # __typename is String!: conflicts with Int, with String (nullability) and with a list of objects
    ("{ pets { ... on Dog { x: __typename } ... on Cat { x: lives } } }", False),
    ("{ pets { ... on Dog { x: __typename } ... on Cat { x: name } } }", False),
    ("{ pets { ... on Cat { x: __typename } ... on Dog { x: friends { name } } } }", False),
    # control: same shape is fine
    ("{ pets { ... on Dog { x: __typename } ... on Cat { x: __typename } } }", True),
]

bad = 0
for doc, should_be_valid in CASES:
    errors = verdict(doc)
    ok = (errors == []) == should_be_valid
    print("%s %s\n      -> %s" % ("ok  " if ok else "FAIL", doc, errors or "no error"))
    if not ok:
        bad += 1
        print("      expected: 'Field(s) \"x\" conflict because they return conflicting types ...'")

if bad:
    print(
        "\n%d document(s) breaking 'Field Selection Merging' (SameResponseShape: "
        "String! vs Int / String / [Dog]) are reported valid; a client cannot "
        "know the type of `x` from the schema." % bad
    )
    sys.exit(1)
print("no defect observed")
