"""
C06: directives written on a variable definition (the parser accepts them and
the library knows the VARIABLE_DEFINITION location) are judged with the
location of the enclosing *operation*: a QUERY-only directive is accepted
there, a VARIABLE_DEFINITION directive is refused, and variables used in their
arguments are invisible to the variable rules.

Run: PYTHONPATH=/repo/src /venv/bin/python demo.py
"""
import sys

from py_gql import build_schema
from py_gql.lang import parse
from py_gql.validation import validate_ast

schema = build_schema(
    """
    directive @onQuery on QUERY
    directive @onMutation on MUTATION
    directive @onVar(n: Int) on VARIABLE_DEFINITION
    type Query { f(i: Int): String }
    type Mutation { m(i: Int): String }
    """
)


def verdict(doc):
    return [str(e) for e in validate_ast(schema, parse(doc)).errors]


CASES = [
    # document, should be valid?
    ("query ($x: Int @onVar) { f(i: $x) }", True),
    ("query ($x: Int @onQuery) { f(i: $x) }", False),
    ("mutation ($x: Int @onMutation) { m(i: $x) }", False),
    ("mutation ($x: Int @onVar(n: 1)) { m(i: $x) }", True),
    # control: same directives on the operation itself
    ("query ($x: Int) @onQuery { f(i: $x) }", True),
    ("query ($x: Int) @onVar { f(i: $x) }", False),
]

bad = 0
for doc, should_be_valid in CASES:
    errors = verdict(doc)
    ok = (errors == []) == should_be_valid
    print("%s %s\n      -> %s" % ("ok  " if ok else "FAIL", doc, errors or "no error"))
    if not ok:
        bad += 1
        print(
            "      expected: %s"
            % (
                "no error (directive declared for VARIABLE_DEFINITION)"
                if should_be_valid
                else "an error of the 'directives are in valid locations' rule "
                "(the directive is not declared for VARIABLE_DEFINITION)"
            )
        )

if bad:
    print("\n%d wrong verdict(s) of the 'Directives Are In Valid Locations' rule" % bad)
    sys.exit(1)
print("no defect observed")
