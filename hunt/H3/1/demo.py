"""
C05: a validated operation run with accepted variables makes the request raise
an internal CoercionError: @skip / @include steered by a nullable variable with
a non-null default, and the variable explicitly set to null.

Run: PYTHONPATH=/repo/src /venv/bin/python demo.py
"""
import asyncio
import sys

from py_gql import build_schema, graphql, graphql_blocking, process_graphql_query
from py_gql.execution.runtime import ThreadPoolRuntime
from py_gql.lang import parse
from py_gql.validation import validate_ast

schema = build_schema(
    """
    type Query { a: Int o: O l: [O] }
    type O { b: Int }
    """
)
schema.register_resolver("Query", "a", lambda root, ctx, info: 1)
schema.register_resolver("Query", "o", lambda root, ctx, info: {"b": 1})
schema.register_resolver("Query", "l", lambda root, ctx, info: [{"b": 1}])

CASES = [
    # (document, variables)
    ("query ($v: Boolean = false) { a @skip(if: $v) }", {"v": None}),
    ("query ($v: Boolean = true) { o { b @include(if: $v) } }", {"v": None}),
    ("query ($v: Boolean = true) { l { ... @include(if: $v) { b } } }", {"v": None}),
    (
        "query ($v: Boolean = true) { o { ...F @skip(if: $v) } } fragment F on O { b }",
        {"v": None},
    ),
]


def blocking(doc, variables):
    return graphql_blocking(schema, doc, variables=variables)


def aio(doc, variables):
    return asyncio.run(graphql(schema, doc, variables=variables))


def threads(doc, variables):
    return process_graphql_query(
        schema, doc, variables=variables, runtime=ThreadPoolRuntime()
    ).result()


failures = 0
for doc, variables in CASES:
    errors = validate_ast(schema, parse(doc), variables=variables).errors
    assert errors == [], errors  # the document is valid (June 2018, 5.8.5)
    for runner in (blocking, aio, threads):
        try:
            result = runner(doc, variables)
        except Exception as err:  # noqa
            failures += 1
            print(
                "FAIL [%s] %s with %r\n     validation: no error; execution RAISED %s: %s"
                % (runner.__name__, doc, variables, type(err).__name__, err)
            )
        else:
            print("ok   [%s] %s -> %r" % (runner.__name__, doc, result.response()))

if failures:
    print(
        "\n%d request(s) raised instead of returning a response. Expected by C05: "
        "a GraphQLResult (field / request error listed under 'errors'), never an "
        "exception, for a validated document and accepted variable values."
        % failures
    )
    sys.exit(1)
print("no defect observed")
