"""
C05: a field error in a Non-Null field is not propagated to the nearest
nullable parent: the response holds `null` at a non-null position / where an
object or list is required, although the document is valid, the variables are
accepted and no resolver misbehaves.

Run: PYTHONPATH=/repo/src /venv/bin/python demo.py
"""
import sys

from py_gql import build_schema, graphql_blocking
from py_gql.lang import parse
from py_gql.validation import validate_ast

schema = build_schema(
    """
    type Query { o: O  obj(a: Int!): O!  lst(a: Int!): [Int!]!  items: [O!] }
    type O { g(a: Int!): Int!  k: Int }
    """
)
schema.register_resolver("Query", "o", lambda root, ctx, info: {"k": 1})
schema.register_resolver("Query", "items", lambda root, ctx, info: [{"k": 1}, {"k": 2}])
schema.register_resolver("Query", "obj", lambda root, ctx, info, a: {"k": a})
schema.register_resolver("Query", "lst", lambda root, ctx, info, a: [a])
schema.register_resolver("O", "g", lambda root, ctx, info, a: a)

VARIABLES = {"x": None}  # accepted: $x is nullable; allowed at Int! thanks to its default

CASES = [
    # document, what the June 2018 spec (6.4.4) requires for `data`
    ("query ($x: Int = 1) { o { k g(a: $x) } }", {"o": None}),
    ("query ($x: Int = 1) { items { k g(a: $x) } }", {"items": None}),
    ("query ($x: Int = 1) { obj(a: $x) { k } }", None),
    ("query ($x: Int = 1) { lst(a: $x) }", None),
]

bad = 0
for doc, expected in CASES:
    assert validate_ast(schema, parse(doc), variables=VARIABLES).errors == []
    result = graphql_blocking(schema, doc, variables=VARIABLES)
    data = result.data
    print(doc)
    print("   data   :", data)
    print("   errors :", [str(e) for e in result.errors])
    if data != expected:
        bad += 1
        print("   WRONG  : expected data == %r (null bubbles up to the nearest nullable position)" % (expected,))

if bad:
    print(
        "\n%d response(s) hold null where the schema declares Non-Null "
        "(Int!, O!, [Int!]!): the data does not have the shape determined by "
        "the selection sets and schema types." % bad
    )
    sys.exit(1)
print("no defect observed")
