"""
C05: validate_ast raises TypeError for a document parsed with the public
parser option `no_location=True` as soon as two fields sharing a response name
have conflicting sub-fields (the overlapping fields rule sorts nodes by `loc`,
which is None).

Run: PYTHONPATH=/repo/src /venv/bin/python demo.py
"""
import sys

from py_gql import build_schema, graphql_blocking
from py_gql.lang import parse
from py_gql.validation import validate_ast

schema = build_schema(
    """
    type Query { pet: Pet  o: Query  f(i: Int): String }
    type Pet { name: String age: Int }
    """
)
schema.register_resolver("Query", "o", lambda root, ctx, info: {})
schema.register_resolver("Query", "f", lambda root, ctx, info, i=None: str(i))

DOCS = [
    "{ pet { n: name } pet { n: age } }",
    "{ o { f(i: 1) } o { f(i: 2) } }",
    "{ o { ...A } o { ...B } } fragment A on Query { x: f(i: 1) } fragment B on Query { x: f }",
]

bad = 0
for src in DOCS:
    with_loc = [str(e)[:60] for e in validate_ast(schema, parse(src)).errors]
    print(src)
    print("   parsed with locations   :", with_loc)
    try:
        errors = validate_ast(schema, parse(src, no_location=True)).errors
        print("   parsed with no_location :", [str(e)[:60] for e in errors])
    except Exception as err:  # noqa
        bad += 1
        print(
            "   parsed with no_location : validate_ast RAISED %s: %s"
            % (type(err).__name__, err)
        )
    try:
        graphql_blocking(schema, parse(src, no_location=True))
    except Exception as err:  # noqa
        print("   graphql_blocking(document) RAISED %s" % type(err).__name__)

if bad:
    print(
        "\n%d document(s): validation crashed instead of returning its list of "
        "errors (expected: the same 'Field(s) ... conflict' error as with "
        "locations)." % bad
    )
    sys.exit(1)
print("no defect observed")
