"""
C05 / C19: a *flat* document (selection sets nested one level deep, operation
depth 0) in which ~1000 fragments spread one another in a chain makes
validate_ast, MaxDepthValidationRule and execution raise RecursionError.

The recorded known item is about documents *nested* deeper than ~130 selection
sets; this one has no nesting at all and goes through different code
(NoFragmentCyclesChecker._search, _conflicts_between_fields_and_fragment,
collect_fields / collect_fields_untyped).

Run: PYTHONPATH=/repo/src /venv/bin/python demo.py
"""
import sys

from py_gql import build_schema, graphql_blocking
from py_gql.lang import parse
from py_gql.utilities import MaxDepthValidationRule
from py_gql.validation import validate_ast

schema = build_schema("type Query { a: Int }")
schema.register_resolver("Query", "a", lambda root, ctx, info: 1)

N = 1000
source = (
    "{ ...F0 } "
    + " ".join("fragment F%d on Query { ...F%d }" % (i, i + 1) for i in range(N))
    + " fragment F%d on Query { a }" % N
)
print("document: %d bytes, %d fragments, deepest selection set nesting: 1" % (len(source), N + 1))

bad = []


def attempt(label, fn, expected):
    try:
        got = fn()
    except BaseException as err:  # RecursionError
        bad.append(label)
        print("FAIL %-28s RAISED %s (expected %s)" % (label, type(err).__name__, expected))
    else:
        print("ok   %-28s %r" % (label, got))


attempt(
    "validate_ast",
    lambda: [str(e) for e in validate_ast(schema, parse(source)).errors],
    "[] - the document is valid",
)
attempt(
    "MaxDepthValidationRule(3)",
    lambda: [str(e) for e in MaxDepthValidationRule(3)(schema, parse(source), {})],
    "[] - the operation is flat (depth 0)",
)
attempt(
    "graphql_blocking, depth rule",
    lambda: graphql_blocking(
        schema, source, validators=[MaxDepthValidationRule(3)]
    ).response(),
    "{'data': {'a': 1}}",
)
attempt(
    "graphql_blocking, no validator",
    lambda: graphql_blocking(schema, source, validators=[]).response(),
    "{'data': {'a': 1}}",
)

# control: a shorter chain works
short = (
    "{ ...F0 } "
    + " ".join("fragment F%d on Query { ...F%d }" % (i, i + 1) for i in range(50))
    + " fragment F50 on Query { a }"
)
print("control (50 fragments):", graphql_blocking(schema, short).response())

if bad:
    print("\nRecursionError leaked from: %s" % ", ".join(bad))
    sys.exit(1)
print("no defect observed")
