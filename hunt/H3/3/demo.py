"""
C07: a nullable variable that is NOT provided, used as the value of an input
object field inside an object literal, makes argument coercion fail instead of
treating the field as omitted (-> declared default / absent).

June 2018, 3.10 Input Objects, input coercion table (type { a: String, b: Int }):
    { a: "abc", b: $var }    variables {}    ->    { a: "abc" }

Run: PYTHONPATH=/repo/src /venv/bin/python demo.py
"""
import sys

from py_gql import build_schema, graphql_blocking
from py_gql.lang import parse
from py_gql.validation import validate_ast

schema = build_schema(
    """
    input In { a: String, b: Int, c: Int = 3, d: String! = "dflt" }
    type Query { f(in: In): String }
    """
)
received = []


def resolver(root, ctx, info, **args):
    received.append(args)
    return "ok"


schema.register_resolver("Query", "f", resolver)

CASES = [
    # document, variables, expected resolver arguments
    (
        'query ($var: Int) { f(in: {a: "abc", b: $var}) }',
        {},
        {"in": {"a": "abc", "c": 3, "d": "dflt"}},
    ),
    (
        'query ($var: Int) { f(in: {a: "abc", c: $var}) }',
        {},
        {"in": {"a": "abc", "c": 3, "d": "dflt"}},
    ),
    (
        'query ($var: String) { f(in: {a: "abc", d: $var}) }',
        {},
        {"in": {"a": "abc", "c": 3, "d": "dflt"}},
    ),
    # control: the same variable used directly as an argument is simply omitted
]

bad = 0
for doc, variables, expected in CASES:
    del received[:]
    assert validate_ast(schema, parse(doc)).errors == []
    result = graphql_blocking(schema, doc, variables=variables)
    got = received[0] if received else None
    if got != expected or result.errors:
        bad += 1
        print("FAIL", doc, "variables", variables)
        print("     resolver called with:", got)
        print("     response:", result.response())
        print("     expected resolver arguments:", expected, "and no error")
    else:
        print("ok  ", doc, got)

if bad:
    print(
        "\n%d case(s): a valid document with accepted (absent, nullable) variables "
        "is refused with an argument coercion error; the specification's input "
        "object coercion treats the field as not provided." % bad
    )
    sys.exit(1)
print("no defect observed")
