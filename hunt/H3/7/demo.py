"""
C05 / C06: validate_ast raises AttributeError for a document using fragment
variable definitions (public parser option experimental_fragment_variables)
when such a fragment is defined before the first operation; with the
definitions in the other order validation returns a verdict.

Consequence of repair 87ae9cd ("ASTVisitor traverses ... variable definitions
of fragments"): UniqueVariableNamesChecker now meets variable definitions
outside of any operation.

Run: PYTHONPATH=/repo/src /venv/bin/python demo.py
"""
import sys

from py_gql import build_schema
from py_gql.lang import parse
from py_gql.validation import validate_ast

schema = build_schema("type Query { f(i: Int): String }")

FRAGMENT = "fragment F($x: Int) on Query { f(i: $x) }"
OPERATION = "query Q($x: Int) { ...F }"


def verdict(src):
    doc = parse(src, experimental_fragment_variables=True)
    try:
        return [str(e) for e in validate_ast(schema, doc).errors]
    except Exception as err:  # noqa
        return "RAISED %s: %s" % (type(err).__name__, err)


operation_first = verdict(OPERATION + " " + FRAGMENT)
fragment_first = verdict(FRAGMENT + " " + OPERATION)
fragment_only = verdict(FRAGMENT)
dup_after_op = verdict(OPERATION + " fragment F($x: Int, $x: Int) on Query { f(i: $x) }")

print("operation first :", operation_first)
print("fragment first  :", fragment_first)
print("fragment only   :", fragment_only)
print("duplicate fragment variable after an operation:", dup_after_op)

bad = []
for label, v in (("fragment first", fragment_first), ("fragment only", fragment_only)):
    if isinstance(v, str):
        bad.append("%s: validation crashed (%s)" % (label, v))
if fragment_first != operation_first:
    bad.append(
        "the verdict depends on the order of the definitions: %r vs %r"
        % (operation_first, fragment_first)
    )

if bad:
    print("\nDEFECTS:")
    for b in bad:
        print(" -", b)
    print(
        "expected: validate_ast returns a list of errors for every parseable "
        "document, the same one for every order of the definitions"
    )
    sys.exit(1)
print("no defect observed")
