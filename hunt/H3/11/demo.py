"""
C05: with the documented option `disable_introspection=True` a validated
operation loses response keys silently: every `__typename` (and `__schema` /
`__type`) selection is dropped from `data` without any error, so the response
does not have the shape determined by the selection sets.

Run: PYTHONPATH=/repo/src /venv/bin/python demo.py
"""
import sys

from py_gql import build_schema, process_graphql_query
from py_gql.lang import parse
from py_gql.validation import validate_ast

schema = build_schema(
    """
    interface Pet { name: String }
    type Dog implements Pet { name: String }
    type Query { pet: Pet  a: Int }
    """
)
schema.register_resolver("Query", "pet", lambda root, ctx, info: {"__typename__": "Dog", "name": "Rex"})
schema.register_resolver("Query", "a", lambda root, ctx, info: 1)

CASES = [
    ("{ pet { __typename name } }", {"pet": {"__typename", "name"}}),
    ("{ __typename a }", {"__typename": None, "a": None}),
    ('{ t: __type(name: "Dog") { name } a }', {"t": None, "a": None}),
]

bad = 0
for doc, expected_keys in CASES:
    assert validate_ast(schema, parse(doc)).errors == []
    result = process_graphql_query(schema, doc, disable_introspection=True)
    data = result.data
    print(doc)
    print("   data  :", data, " errors:", [str(e) for e in result.errors])
    missing = []
    for key, sub in expected_keys.items():
        if key not in data:
            missing.append(key)
        elif sub:
            missing += ["%s.%s" % (key, k) for k in sub if k not in data[key]]
    if missing and not result.errors:
        bad += 1
        print("   WRONG : response keys %s are missing and no error is reported" % missing)

if bad:
    print(
        "\n%d response(s) lack selected response keys (expected: one value per "
        "selected response key, or an error explaining the refusal)." % bad
    )
    sys.exit(1)
print("no defect observed")
