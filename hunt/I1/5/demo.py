"""Anchored file src/py_gql/_utils.py (an anchor of C18), function `deprecated`:
the deprecated SchemaVisitor hooks neither warn nor delegate, and they write
function attributes onto the schema object they are given.
(Not one of C01/C02/C03/C18 - reported as a side finding.)"""
import sys
import warnings

from py_gql import build_schema
from py_gql._utils import deprecated
from py_gql.schema import SchemaVisitor

failures = []

# 1. the decorator on a plain function
@deprecated("use g")
def f(x):
    return x + 1

try:
    print("deprecated(...)(f)(1) ->", f(1))
    # (the reviewer's script recorded a failure here unconditionally - a slip of the script: the call succeeding is the expected outcome)
except Exception as err:
    print("deprecated(...)(f)(1) -> %s: %s" % (type(err).__name__, err))
    failures.append("a function decorated with deprecated() raises %s instead of "
                    "warning and returning f(1) == 2" % type(err).__name__)

# 2. the three hooks SchemaVisitor keeps under their old names
schema = build_schema("type Query { a(x: Int): Int }")
field = schema.get_type("Query").fields[0]


class HideEverything(SchemaVisitor):
    def on_field(self, field):
        return None  # remove the field


visitor = HideEverything()
with warnings.catch_warnings(record=True) as caught:
    warnings.simplefilter("always")
    got = visitor.on_field_definition(field)
print("on_field(field)            ->", visitor.on_field(field))
print("on_field_definition(field) ->", got, "| warnings:", [str(w.message) for w in caught])
print("attributes written on the Field object:",
      sorted(k for k in vars(field) if k.startswith("__")))
if got is not None:
    failures.append("on_field_definition does not delegate to on_field: returned %r, "
                    "on_field returns None" % got)
if not caught:
    failures.append("on_field_definition emits no DeprecationWarning")
if hasattr(field, "__wrapped__"):
    failures.append("on_field_definition wrote __wrapped__/__name__/__doc__ ... onto the "
                    "schema Field it was given")

if failures:
    print("\nFAIL")
    for f_ in failures:
        print(" -", f_)
    sys.exit(1)
print("OK")
