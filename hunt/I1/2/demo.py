"""C01 (public Parser API): Parser.peek(n) never returns when fewer than n tokens are left."""
import signal
import sys

from py_gql.exc import GraphQLSyntaxError, UnexpectedEOF
from py_gql.lang import Parser
from py_gql.lang.token import EOF, SOF, Name


class Hang(Exception):
    pass


def on_alarm(*_):
    raise Hang()


signal.signal(signal.SIGALRM, on_alarm)

failures = []


def check(label, make):
    signal.alarm(2)
    try:
        try:
            tok = make()
            print("%-45s -> returned %r" % (label, tok))
            failures.append("%s: returned a token although not enough are left" % label)
        except UnexpectedEOF as err:
            print("%-45s -> UnexpectedEOF at %d (as documented)" % (label, err.position))
        except GraphQLSyntaxError as err:
            print("%-45s -> %s" % (label, type(err).__name__))
        except Hang:
            print("%-45s -> still running after 2s (infinite loop)" % label)
            failures.append(
                "%s: never returns; the docstring promises UnexpectedEOF "
                "'if there is not enough tokens left in the lexer'" % label
            )
    finally:
        signal.alarm(0)


# the whole token stream of "a" is <SOF> a <EOF>: three tokens
tok = Parser("a").peek(3)
print("%-45s -> %r (control: enough tokens)" % ('Parser("a").peek(3)', tok))
assert isinstance(tok, EOF)
check('Parser("a").peek(4)', lambda: Parser("a").peek(4))
check('Parser("").peek(3)', lambda: Parser("").peek(3))


# the situation a hand written parser built on Parser runs into: two tokens of
# lookahead while standing on the last token of the text
def lookahead_at_end():
    p = Parser("{ a }")
    p.expect(SOF)
    p.parse_selection_set()
    assert isinstance(p.peek(), EOF)
    return p.peek(2)


check("peek(2) after the last token of '{ a }'", lookahead_at_end)

if failures:
    print("\nFAIL")
    for f in failures:
        print(" -", f)
    sys.exit(1)
print("OK")
