"""C01: error line/column and the rendered message ignore CR line terminators."""
import sys

from py_gql.exc import GraphQLSyntaxError
from py_gql.lang import parse

LINES = ["query {", "  a", "  b(x: )", "}"]  # the error is the ")" on line 3, column 8

failures = []
results = {}
for label, eol in (("LF", "\n"), ("CRLF", "\r\n"), ("CR", "\r")):
    text = eol.join(LINES)
    try:
        parse(text)
    except GraphQLSyntaxError as err:
        loc = err.to_dict()["locations"][0]
        line, col = loc["line"], loc.get("column", loc.get("columne"))
        results[label] = (line, col)
        print("--- line terminator %-4s position=%d char=%r -> line %d, column %d"
              % (label, err.position, text[err.position], line, col))
        print(str(err))
        if (line, col) != (3, 8):
            failures.append(
                "%s: the unexpected ')' is on line 3, column 8 (CR is a LineTerminator, "
                "spec 2.1.2) but the error says line %d, column %d" % (label, line, col)
            )
        # the rendered excerpt must show the offending line under the caret
        shown = [l for l in str(err).splitlines() if l.strip().startswith("%d:" % line)]
        if not shown or "b(x: )" not in shown[0]:
            failures.append(
                "%s: the rendered message marks line %r, which is not the line "
                "holding the error" % (label, shown[0] if shown else None)
            )

# mixed terminators: the excerpt shows a different line than the one counted
text = "{ a }\r{ b }\n{ c $ }"
try:
    parse(text)
except GraphQLSyntaxError as err:
    print("--- mixed CR / LF")
    print(str(err))
    marked = str(err).splitlines()[2]
    if "$" not in marked:
        failures.append(
            "mixed: error is the '$' of the third line, message marks %r" % marked
        )

if failures:
    print("\nFAIL")
    for f in failures:
        print(" -", f)
    sys.exit(1)
print("OK")
