"""C01: three lexer errors point one character past the offending character."""
import sys

from py_gql.exc import GraphQLSyntaxError
from py_gql.lang import parse, parse_value

failures = []


def check(fn, text, bad_index):
    try:
        fn(text)
    except GraphQLSyntaxError as err:
        at = repr(text[err.position]) if err.position < len(text) else "<end of text>"
        print("%-14r %-20s offending char %r at index %d, reported position %d (%s)"
              % (text, type(err).__name__, text[bad_index], bad_index, err.position, at))
        if err.position != bad_index:
            failures.append(
                "%r: offending character %r is at index %d, error.position is %d%s"
                % (text, text[bad_index], bad_index, err.position,
                   " which is not the index of any character of the text"
                   if err.position >= len(text) else "")
            )
    else:
        failures.append("%r: accepted" % text)


# control: the same error class inside a string points AT the character
check(parse, '{ a(x: "\x07") }', 8)
# outside of a string it points one further
check(parse, "{ a \x07 }", 4)
check(parse, "\x07", 0)          # position 1 in a text of length 1
check(parse, "{ a }\x00", 5)     # position 6 == len(text) although this is no EOF error
# '...' reader
check(parse, "{ ..a }", 4)
check(parse_value, "1.2e3.4", 6)  # position 7 == len(text)
check(parse_value, "[.5]", 2)

if failures:
    print("\nFAIL")
    for f in failures:
        print(" -", f)
    sys.exit(1)
print("OK")
