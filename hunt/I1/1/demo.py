"""C01: the response-error dictionary of a syntax error spells the column key "columne"."""
import sys

from py_gql import build_schema, graphql_blocking
from py_gql.exc import GraphQLSyntaxError, ValidationError
from py_gql.lang import parse

failures = []

# 1. directly on the exception
try:
    parse("{ a(x: ) }")
except GraphQLSyntaxError as err:
    d = err.to_dict()
    print("GraphQLSyntaxError.to_dict() ->", d)
    loc = d["locations"][0]
    if set(loc) != {"line", "column"}:
        failures.append(
            "syntax error location has keys %r, the response format "
            "(June 2018, 7.1.2 Errors) demands 'line' and 'column'" % sorted(loc)
        )
else:
    failures.append("expected a syntax error")

# 2. the same dictionary reaches the client through the public entry point,
#    while every other error kind of the same response uses 'column'
schema = build_schema("type Query { a: Int }")
syntax = graphql_blocking(schema, "{ a ").response()
valid = graphql_blocking(schema, "{ b }").response()
print("syntax error response    ->", syntax["errors"][0]["locations"])
print("validation error response ->", valid["errors"][0]["locations"])
if "column" not in syntax["errors"][0]["locations"][0]:
    failures.append(
        "graphql_blocking() response for a syntax error has no 'column' entry: %r"
        % syntax["errors"][0]["locations"][0]
    )
if "column" not in valid["errors"][0]["locations"][0]:
    failures.append("(control) validation error lost its column")

if failures:
    print("\nFAIL")
    for f in failures:
        print(" -", f)
    sys.exit(1)
print("OK")
