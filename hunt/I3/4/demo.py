"""
C05: the standard introspection query - a validated operation, answered
entirely by the library's own resolvers - raises RuntimeError on any schema
that declares a directive `on VARIABLE_DEFINITION`.

The SDL parser, Directive(), schema validation and (since repair 6f96136)
KnownDirectivesChecker all accept the VARIABLE_DEFINITION location, but the
introspection enum __DirectiveLocation has no such value, so serialising
`__Directive.locations` fails and the exception escapes the entry points.
"""
import sys

from py_gql import build_schema, graphql_blocking, process_graphql_query
from py_gql.lang import parse
from py_gql.schema import Directive, Int, ObjectType, Field, Schema, Argument
from py_gql.utilities import introspection_query
from py_gql.validation import validate_ast

sdl_schema = build_schema(
    """
    directive @tag(n: Int) on FIELD | VARIABLE_DEFINITION
    type Query { f(i: Int): Int }
    """
)
py_schema = Schema(
    ObjectType("Query", [Field("f", Int)]),
    directives=[
        Directive("tag", ["VARIABLE_DEFINITION"], [Argument("n", Int)])
    ],
)

DOCS = [
    ("introspection_query()", introspection_query()),
    ("{ __schema { directives { name locations } } }",) * 2,
]

failures = 0
for schema_label, schema in (("SDL schema", sdl_schema), ("Python schema", py_schema)):
    schema.validate()  # the schema is accepted (raises otherwise)
    # the location is usable: this document validates and runs
    if schema is sdl_schema:
        r = graphql_blocking(
            schema, "query ($x: Int @tag(n: 1)) { f(i: $x) }", root={"f": 1}
        )
        assert not r.errors, r.errors
    for label, doc in DOCS:
        assert validate_ast(schema, parse(doc)).errors == []
        for fn in (graphql_blocking, process_graphql_query):
            try:
                result = fn(schema, doc)
            except Exception as err:  # noqa
                failures += 1
                print(
                    "RAISED %-14s %-22s %-46s %s: %s"
                    % (schema_label, fn.__name__, label, type(err).__name__, err)
                )
            else:
                locations = [
                    d["locations"]
                    for d in result.response()["data"]["__schema"]["directives"]
                    if d["name"] == "tag"
                ]
                print("ok     %-14s %-22s %-46s %r" % (schema_label, fn.__name__, label, locations))

if failures:
    print()
    print(
        "%d validated introspection request(s) raised instead of listing "
        "VARIABLE_DEFINITION among the locations of @tag." % failures
    )
    sys.exit(1)
print("introspection works")
