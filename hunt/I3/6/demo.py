"""
C05: a perfectly ordinary schema whose field takes an argument called `info`,
`root` or `context` cannot be queried: the library's own default resolver is
called as default_resolver(parent, context, info, **coerced_args) and the
argument collides with its positional parameter.  The schema validates, the
document validates, and executing it raises TypeError out of the entry points.
"""
import sys

from py_gql import build_schema, graphql_blocking, process_graphql_query
from py_gql.lang import parse
from py_gql.validation import validate_ast

failures = 0
for arg in ("info", "root", "context"):
    schema = build_schema(
        """
        type Query { g: Int, item(%s: String): Item }
        type Item { label(%s: String = "dflt"): String }
        """
        % (arg, arg)
    )
    schema.validate()  # accepted
    root = {"g": 2, "item": {"label": "x"}}
    for doc in (
        '{ g item(%s: "v") { __typename } }' % arg,  # argument supplied
        "{ g item { label } }",  # argument omitted: its default is passed
    ):
        assert validate_ast(schema, parse(doc)).errors == []
        for fn in (graphql_blocking, process_graphql_query):
            try:
                response = fn(schema, doc, root=root).response()
            except Exception as err:  # noqa
                failures += 1
                print("RAISED %-22s %-42s %s: %s" % (fn.__name__, doc, type(err).__name__, err))
            else:
                print("ok     %-22s %-42s %r" % (fn.__name__, doc, response))

if failures:
    print()
    print(
        "%d validated request(s) against a valid schema raised TypeError from "
        "the default resolver; C05 demands a response." % failures
    )
    sys.exit(1)
print("no exception")
