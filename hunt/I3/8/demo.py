"""
C07 (and C05): an invalid variable value must be *rejected* (a
VariablesCoercionError, i.e. an `errors` entry in the response).  When the
rejected value is not serialisable by the standard json module the rejection
itself crashes: coerce_variable_values formats the message with
json.dumps(value) and TypeError escapes coerce_variable_values, execute and the
graphql* entry points.

Such values are ordinary: request bodies decoded with
json.loads(body, parse_float=decimal.Decimal), or in-process callers handing a
date / bytes / set to a custom scalar.  Valid values of the very same Python
types go through fine - only the *rejection path* breaks.
"""
import datetime
import decimal
import json
import sys

from py_gql import build_schema, graphql_blocking
from py_gql.exc import VariablesCoercionError
from py_gql.lang import parse
from py_gql.schema import ScalarType
from py_gql.utilities import coerce_variable_values


def parse_date(value):
    if isinstance(value, datetime.date):
        if value.year < 2000:
            raise ValueError("dates before 2000 are not supported")
        return value
    return datetime.date.fromisoformat(value)


Date = ScalarType("Date", serialize=str, parse=parse_date)
schema = build_schema(
    """
    scalar Date
    input In { a: Int, b: String! }
    type Query { f(i: Int, fl: Float, in: In, d: Date): Int }
    """,
    additional_types=[Date],
)
body = '{"i": 1.5, "in": {"b": "x", "a": 2.5}}'
decimal_variables = json.loads(body, parse_float=decimal.Decimal)

CASES = [
    ("query ($i: Int) { f(i: $i) }", decimal_variables),  # 1.5 is no Int
    ("query ($in: In) { f(in: $in) }", decimal_variables),  # a: 2.5 is no Int
    ("query ($d: Date) { f(d: $d) }", {"d": datetime.date(1999, 1, 1)}),  # refused by the scalar
    ("query ($i: Int) { f(i: $i) }", {"i": b"1"}),  # bytes are no Int
]
# controls: the same kinds of values, valid this time
CONTROLS = [
    ("query ($x: Float) { f(fl: $x) }", {"x": decimal.Decimal("1.5")}, None),
    ("query ($d: Date) { f(d: $d) }", {"d": datetime.date(2020, 1, 1)}, None),
    # and a rejected value json can print
    ("query ($i: Int) { f(i: $i) }", {"i": 1.5}, "got invalid value 1.5"),
]

failures = 0
for doc, variables, expected in CONTROLS:
    result = graphql_blocking(schema, doc, variables=variables, root={"f": 1})
    messages = [e.message for e in result.errors]
    assert (messages == []) if expected is None else (expected in messages[0]), messages
    print("control %-34s %-32r -> %r" % (doc, variables, result.response()))

for doc, variables in CASES:
    operation = parse(doc).definitions[0]
    for label, call in (
        ("coerce_variable_values", lambda: coerce_variable_values(schema, operation, variables)),
        ("graphql_blocking", lambda: graphql_blocking(schema, doc, variables=variables, root={"f": 1}).response()),
    ):
        try:
            outcome = call()
        except VariablesCoercionError as err:
            print("ok      %-24s %-34s rejected: %s" % (label, doc, [str(e) for e in err.errors]))
        except Exception as err:  # noqa
            failures += 1
            print("RAISED  %-24s %-34s %r -> %s: %s" % (label, doc, variables, type(err).__name__, err))
        else:
            ok = isinstance(outcome, dict) and "errors" in outcome
            failures += not ok
            print("%s %-24s %-34s -> %r" % ("ok     " if ok else "WRONG  ", label, doc, outcome))

if failures:
    print()
    print(
        "%d rejection(s) of an invalid variable value ended in TypeError "
        "instead of VariablesCoercionError / an errors entry." % failures
    )
    sys.exit(1)
print("invalid values are rejected cleanly")
