"""
C07: "input objects are dictionaries ... with declared defaults filled in".

An argument default that is an input object literal is coerced once, while the
schema is built, against the input type *as it is before type extensions are
applied*.  Fields (with defaults) that `extend input` adds - in the same SDL
document or later through extend_schema() - are missing from the dictionary the
resolver receives when the argument is omitted, although the very same literal
written inline (or sent through a variable) gets them filled in.
"""
import sys

from py_gql import build_schema, graphql_blocking
from py_gql.sdl import extend_schema

SDL = """
directive @opt(i: In = {b: "dflt"}) on FIELD

enum E { A B }
input In { a: Int = 4, b: String! }
type Query {
    g(in: In = {b: "dflt"}): Int
}

extend input In { z: Int = 5, e: E = B }
"""

calls = []


def resolver(root, ctx, info, **kwargs):
    calls.append((kwargs, info.get_directive_arguments("opt")))
    return 1


def ask(schema, doc, **kw):
    del calls[:]
    result = graphql_blocking(schema, doc, **kw)
    assert not result.errors, result.errors
    return calls[0]


failures = 0


def check(label, got, expected):
    global failures
    ok = got == expected
    failures += not ok
    print("%s %s\n       got      %r\n       expected %r" % ("ok    " if ok else "WRONG ", label, got, expected))


schema = build_schema(SDL)
schema.default_resolver = resolver

FULL = {"a": 4, "b": "dflt", "z": 5, "e": "B"}

# reference: the literal of the default, written inline / sent as a variable
args, _ = ask(schema, '{ g(in: {b: "dflt"}) }')
check("build_schema: inline literal", args["in"], FULL)
args, _ = ask(schema, "query ($v: In) { g(in: $v) }", variables={"v": {"b": "dflt"}})
check("build_schema: variable", args["in"], FULL)
# the declared default of the argument
args, _ = ask(schema, "{ g }")
check("build_schema: argument omitted -> default {b: \"dflt\"}", args["in"], FULL)
# the declared default of a directive argument
_, opt = ask(schema, "{ g @opt }")
check("build_schema: @opt without argument -> default {b: \"dflt\"}", opt["i"], FULL)

# the same through extend_schema()
extended = extend_schema(
    schema,
    """
    extend input In { y: [Int!] = 7 }
    extend type Query { h(in: In = {b: "dflt"}): Int }
    """,
)
extended.default_resolver = resolver
FULL2 = dict(FULL, y=[7])
args, _ = ask(extended, '{ h(in: {b: "dflt"}) }')
check("extend_schema: inline literal", args["in"], FULL2)
args, _ = ask(extended, "{ h }")
check("extend_schema: new field h, argument omitted", args["in"], FULL2)
args, _ = ask(extended, "{ g }")
check("extend_schema: old field g, argument omitted", args["in"], FULL2)

if failures:
    print()
    print(
        "%d default value(s) reach the resolver without the declared defaults "
        "of the fields added by `extend input In`; the same literal supplied "
        "inline or through a variable has them." % failures
    )
    sys.exit(1)
print("defaults are complete")
