"""
C05: a validated operation makes the entry points raise CoercionError.

A nullable variable with a non-null default may be used for the `if: Boolean!`
argument of @skip / @include (June 2018, 5.8.5 "hasNonNullVariableDefaultValue").
`null` is an accepted value for such a variable. Executing the validated
document with {"x": null} must end in a response (a query / field error), the
library lets py_gql.exc.CoercionError escape from graphql_blocking,
process_graphql_query and graphql instead.
"""
import asyncio
import sys

from py_gql import build_schema, graphql, graphql_blocking, process_graphql_query
from py_gql.execution.runtime import ThreadPoolRuntime
from py_gql.lang import parse
from py_gql.validation import validate_ast

schema = build_schema(
    """
    type Query { a: Int, o: O }
    type O { a: Int, o: O }
    """
)
ROOT = {"a": 1, "o": {"a": 2, "o": {"a": 3}}}
VARIABLES = {"x": None}

DOCS = [
    # directive on a root field / root level fragment: every entry point raises
    "query ($x: Boolean = true) { a @skip(if: $x) o { a } }",
    "query ($x: Boolean = true) { ... @include(if: $x) { a } }",
    "query ($x: Boolean = true) { ...F @include(if: $x) } fragment F on Query { a }",
    # directive below a field: graphql_blocking still raises (the generic
    # executor turns it into a field error there)
    "query ($x: Boolean = true) { a o { a @skip(if: $x) } }",
    "query ($x: Boolean = true) { a o { ...G @include(if: $x) } } fragment G on O { a }",
]


def run_async(doc):
    loop = asyncio.new_event_loop()
    try:
        return loop.run_until_complete(
            graphql(schema, doc, variables=VARIABLES, root=ROOT)
        )
    finally:
        loop.close()


ENTRY_POINTS = [
    (
        "graphql_blocking",
        lambda doc: graphql_blocking(schema, doc, variables=VARIABLES, root=ROOT),
    ),
    (
        "process_graphql_query",
        lambda doc: process_graphql_query(
            schema, doc, variables=VARIABLES, root=ROOT
        ),
    ),
    ("graphql (asyncio)", run_async),
    (
        "process_graphql_query(ThreadPoolRuntime)",
        lambda doc: process_graphql_query(
            schema, doc, variables=VARIABLES, root=ROOT, runtime=ThreadPoolRuntime()
        ).result(),
    ),
]

failures = 0
for doc in DOCS:
    errors = validate_ast(schema, parse(doc)).errors
    assert errors == [], errors  # the document is valid
    for name, call in ENTRY_POINTS:
        try:
            result = call(doc)
        except Exception as err:  # noqa
            failures += 1
            print("RAISED  %-42s %s: %s" % (name, type(err).__name__, err))
            print("        document: %s   variables: %r" % (doc, VARIABLES))
        else:
            print("ok      %-42s %r" % (name, result.response()))

if failures:
    print()
    print(
        "%d call(s) raised for a document that validate_ast accepts and "
        "variables that variable coercion accepts; C05 demands a response "
        "(errors entry), never an exception." % failures
    )
    sys.exit(1)
print("no exception escaped")
