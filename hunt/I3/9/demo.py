"""
C06: the field-merging verdict depends on the syntactic order of the fields of
an input object literal.

June 2018, 2.9.8: "Input object fields are unordered. Input object fields may be
provided in any syntactic order and maintain identical semantic meaning"; the
two arguments {a: 1, b: "x"} and {b: "x", a: 1} are the same value, so two
selections of the same field carrying them have identical arguments (5.3.2) and
can be merged.  The library reports 'have different arguments' - while it
(rightly) does not care about the order of the arguments themselves.
"""
import sys

from py_gql import build_schema, graphql_blocking
from py_gql.lang import parse
from py_gql.validation import validate_ast

schema = build_schema(
    """
    input Point { lat: Float, lon: Float, tag: Tag }
    input Tag { k: String, v: String }
    type Query { nearest(at: Point, limit: Int): String }
    """
)


def errors(doc):
    return [e.message for e in validate_ast(schema, parse(doc)).errors]


# controls: same spelling; arguments in another order
assert errors("{ nearest(at: {lat: 1.5, lon: 2.5}, limit: 1) nearest(at: {lat: 1.5, lon: 2.5}, limit: 1) }") == []
assert errors("{ nearest(at: {lat: 1.5, lon: 2.5}, limit: 1) nearest(limit: 1, at: {lat: 1.5, lon: 2.5}) }") == []
# control: really different values are a conflict
assert errors("{ nearest(at: {lat: 1.5, lon: 2.5}) nearest(at: {lat: 2.5, lon: 1.5}) }") != []

DOCS = [
    # the example of the specification (2.9.8), selected twice
    "{ nearest(at: {lon: 12.43, lat: -53.211}) nearest(at: {lat: -53.211, lon: 12.43}) }",
    # nested object, through a fragment
    "{ nearest(at: {lat: 1.0, tag: {k: \"a\", v: \"b\"}}) ...F } "
    "fragment F on Query { nearest(at: {lat: 1.0, tag: {v: \"b\", k: \"a\"}}) }",
]

failures = 0
for doc in DOCS:
    errs = errors(doc)
    ok = errs == []
    failures += not ok
    print("%s %s\n       %s" % ("ok    " if ok else "WRONG ", doc, errs))

# what is at stake: the two selections denote one unambiguous call
seen = []


@schema.resolver("Query.nearest")
def nearest(root, ctx, info, **kwargs):
    seen.append(kwargs)
    return "x"


for spelling in ("{lon: 12.43, lat: -53.211}", "{lat: -53.211, lon: 12.43}"):
    graphql_blocking(schema, "{ nearest(at: %s) }" % spelling)
assert seen[0] == seen[1], seen
print("resolver arguments for both spellings: %r" % (seen[0],))

if failures:
    print()
    print(
        "%d document(s) whose two selections carry the same argument value "
        "(fields of the object literal written in another order) are rejected "
        "with 'have different arguments'." % failures
    )
    sys.exit(1)
print("verdict independent of the order of input object fields")
