"""
C19-adjacent (anchored function selected_fields of utilities/collect_fields.py,
exposed to resolvers as ResolveInfo.selected_fields):

ResolveInfo.selected_fields() only looks at the *first* node of the field being
resolved.  When the field is selected several times (directly or through
fragments) the sub-selections are merged by the executor - and by
selected_fields itself one level further down since repair 09f84bb - but the
paths reported to the resolver only describe the first occurrence, and they
change when the (order-irrelevant) selections are reordered.
"""
import sys

from py_gql import build_schema, graphql_blocking
from py_gql.lang import parse
from py_gql.validation import validate_ast

schema = build_schema(
    """
    type Query { hero: Node }
    type Node { a: Int, b: Int, friend: Node }
    """
)
reported = []


@schema.resolver("Query.hero")
def hero(root, ctx, info):
    reported.append(sorted(info.selected_fields(maxdepth=0)))
    return {"a": 1, "b": 2, "friend": {"a": 3, "b": 4}}


def paths_of(data, prefix=""):
    out = []
    for key, value in data.items():
        out.append(prefix + key)
        if isinstance(value, dict):
            out.extend(paths_of(value, prefix + key + "/"))
    return sorted(out)


DOCS = [
    # control: a single occurrence
    "{ hero { a b friend { a } } }",
    # the same selection spread over two occurrences of `hero`
    "{ hero { a } hero { b friend { a } } }",
    "{ hero { b friend { a } } hero { a } }",
    "{ hero { a } ...F } fragment F on Query { hero { b friend { a } } }",
    "{ ... { hero { a } } ... on Query { hero { b } } hero { friend { a } } }",
]

failures = 0
for doc in DOCS:
    assert validate_ast(schema, parse(doc)).errors == []
    del reported[:]
    result = graphql_blocking(schema, doc)
    assert not result.errors
    executed = paths_of(result.data["hero"])
    ok = reported[0] == executed
    failures += not ok
    print(
        "%s %s\n       info.selected_fields(maxdepth=0) = %r\n       fields executed below hero       = %r"
        % ("ok    " if ok else "WRONG ", doc, reported[0], executed)
    )

if failures:
    print()
    print(
        "%d document(s): the resolver of `hero` is told about the first "
        "occurrence of the field only (and the answer depends on the order of "
        "the occurrences), the executor merges all of them." % failures
    )
    sys.exit(1)
print("selected_fields agrees with the executed selection")
