"""
C07: a numeric literal for a custom scalar that has no literal parser of its
own reaches the resolver as the *source text* of the token ('42', '1.5'), the
same value supplied through a variable of the same type reaches it as a number
(42, 1.5).  "Supplying a value inline or through a variable of the same type
gives the resolver the same arguments."

Both ways of declaring such a scalar are affected:
  * `scalar Any` in the SDL (build_schema uses py_gql.schema.scalars.default_scalar)
  * ScalarType("Any", serialize=..., parse=...) without parse_literal
"""
import sys

from py_gql import build_schema, graphql_blocking
from py_gql.lang import parse_value
from py_gql.schema import ListType, ScalarType
from py_gql.utilities import coerce_value, value_from_ast

SDL = """
scalar Any
input Box { v: Any, vs: [Any] }
type Query { f(a: Any, l: [Any], box: Box): String }
"""


def make_schema(additional_types=None):
    seen = []
    schema = build_schema(SDL, additional_types=additional_types)

    @schema.resolver("Query.f")
    def f(root, ctx, info, **kwargs):
        seen.append(kwargs)
        return "ok"

    return schema, seen


SCHEMAS = [
    ("scalar Any (SDL, default_scalar)", None),
    (
        "ScalarType('Any', serialize, parse) without parse_literal",
        [ScalarType("Any", serialize=lambda v: v, parse=lambda v: v)],
    ),
]

CASES = [
    # inline document, variable document, variables
    ("{ f(a: 42) }", "query ($v: Any) { f(a: $v) }", {"v": 42}),
    ("{ f(a: 1.5) }", "query ($v: Any) { f(a: $v) }", {"v": 1.5}),
    ("{ f(a: -7) }", "query ($v: Any) { f(a: $v) }", {"v": -7}),
    ("{ f(l: [1, 2.5]) }", "query ($v: [Any]) { f(l: $v) }", {"v": [1, 2.5]}),
    (
        "{ f(box: {v: 3, vs: [4]}) }",
        "query ($v: Box) { f(box: $v) }",
        {"v": {"v": 3, "vs": [4]}},
    ),
    # controls: kinds whose token text *is* the value agree
    ('{ f(a: "x") }', "query ($v: Any) { f(a: $v) }", {"v": "x"}),
    ("{ f(a: true) }", "query ($v: Any) { f(a: $v) }", {"v": True}),
]

failures = 0
for label, extra in SCHEMAS:
    schema, seen = make_schema(extra)
    print("== %s" % label)
    for inline_doc, variable_doc, variables in CASES:
        del seen[:]
        r1 = graphql_blocking(schema, inline_doc)
        inline_args = list(seen)
        del seen[:]
        r2 = graphql_blocking(schema, variable_doc, variables=variables)
        variable_args = list(seen)
        assert not r1.errors and not r2.errors, (r1.errors, r2.errors)
        same = inline_args == variable_args
        print(
            "%s %-32s -> %r\n   %-32s -> %r"
            % (
                "ok  " if same else "DIFF",
                inline_doc,
                inline_args,
                "%s %r" % (variable_doc, variables),
                variable_args,
            )
        )
        failures += not same

# The same on the two public coercion functions the property is anchored in.
Any = make_schema()[0].get_type("Any")
lit = value_from_ast(parse_value("42"), Any)
var = coerce_value(42, Any)
print("value_from_ast(42, Any) = %r   coerce_value(42, Any) = %r" % (lit, var))
failures += lit != var
lit = value_from_ast(parse_value("[1, 2.5]"), ListType(Any))
var = coerce_value([1, 2.5], ListType(Any))
print(
    "value_from_ast([1, 2.5], [Any]) = %r   coerce_value([1, 2.5], [Any]) = %r"
    % (lit, var)
)
failures += lit != var

if failures:
    print()
    print(
        "%d case(s): the resolver receives the token text ('42', '1.5') for an "
        "inline number and the number itself through a variable; C07 demands "
        "the same arguments either way." % failures
    )
    sys.exit(1)
print("inline and variable values agree")
