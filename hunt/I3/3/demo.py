"""
C06: "Directives Are Unique Per Location" (June 2018 5.7.3) is not applied to
variable definitions.

The library parses directives on variable definitions, knows the
VARIABLE_DEFINITION location and (since repair 6f96136) checks such directives
against it - but the uniqueness rule only looks at operations, fields, fragment
spreads, inline fragments and fragment definitions.  A document whose only
defect is the same directive twice on one variable definition validates.
"""
import sys

from py_gql import build_schema
from py_gql.lang import parse
from py_gql.validation import validate_ast

schema = build_schema(
    """
    directive @tag(n: Int) on
        QUERY | FIELD | FRAGMENT_SPREAD | INLINE_FRAGMENT | FRAGMENT_DEFINITION | VARIABLE_DEFINITION
    type Query { f(i: Int): Int }
    """
)


def errors(doc):
    return [e.message for e in validate_ast(schema, parse(doc)).errors]


# The rule works at every other executable location ...
CONTROLS = [
    "query Q @tag @tag { f }",
    "{ f @tag @tag }",
    "{ ... @tag @tag { f } }",
    "{ ...F @tag @tag } fragment F on Query { f }",
    "{ ...F } fragment F on Query @tag @tag { f }",
]
# ... but not on variable definitions.
BROKEN = [
    "query ($x: Int @tag @tag) { f(i: $x) }",
    "query ($x: Int = 1 @tag(n: 1) @tag(n: 2)) { f(i: $x) }",
    "query ($x: Int @tag, $y: Int @tag @tag @tag) { f(i: $x) g: f(i: $y) }",
]

failures = 0
for doc in CONTROLS:
    errs = errors(doc)
    assert any("Duplicate directive" in m for m in errs), (doc, errs)
    print("control  %-62s %s" % (doc, errs))

# a single use is fine: the documents below break exactly one rule
assert errors("query ($x: Int @tag) { f(i: $x) }") == []

for doc in BROKEN:
    errs = errors(doc)
    ok = any("Duplicate directive" in m for m in errs)
    print("%s  %-62s %s" % ("ok     " if ok else "MISSED ", doc, errs))
    failures += not ok

if failures:
    print()
    print(
        "%d document(s) repeating a directive on one variable definition "
        "validate without error; the rule demands 'Duplicate directive \"@tag\"' "
        "like at every other location." % failures
    )
    sys.exit(1)
print("duplicates reported everywhere")
