"""C14: an extension document whose default values use what the same document adds
(an enum value, an input field) is rejected; an extension that invalidates an
existing default is accepted and the result can no longer be introspected."""
import sys

from py_gql import build_schema, graphql_blocking
from py_gql.sdl import extend_schema
from py_gql.utilities import introspection_query

problems = []

BASE = """
enum E { A }
input In { a: Int }
type Query { f(e: E = A, i: In = {a: 1}): Int }
"""

VALID_EXTENSIONS = [
    # default uses the enum value added by the same document
    "extend enum E { B } extend type Query { g(e: E = B): Int }",
    "extend enum E { B } input New { e: E = B }",
    "extend enum E { B } directive @x(e: E = B) on FIELD",
    # default uses the input field added by the same document
    "extend input In { b: Int } extend type Query { g(i: In = {a: 1, b: 2}): Int }",
    "extend input In { b: Int, c: In = {b: 1} }",
]

for ext in VALID_EXTENSIONS:
    schema = build_schema(BASE)
    try:
        extended = extend_schema(schema, ext)
        extended.validate()
    except Exception as err:
        problems.append(
            "valid extension %r rejected with %s: %s"
            % (ext, type(err).__name__, err)
        )

# The same happens when definition and extension are in one document.
try:
    build_schema("enum E { A } extend enum E { B } type Query { f(e: E = B): Int }")
except Exception as err:
    problems.append(
        "build_schema of a valid document (default uses extension value) "
        "rejected with %s: %s" % (type(err).__name__, err)
    )

# Other direction: the extension makes an existing default invalid (the
# default {a: 1} lacks the new required field). It is accepted, validated, and
# the extended schema cannot be introspected any more.
schema = build_schema(BASE)
try:
    extended = extend_schema(schema, "extend input In { b: Int! }")
except Exception as err:
    print("(extension invalidating a default is rejected: fine) %r" % err)
else:
    try:
        result = graphql_blocking(extended, introspection_query())
        if result.errors:
            problems.append(
                "extension `extend input In { b: Int! }` accepted although "
                "default {a: 1} of Query.f(i:) is now invalid; introspection "
                "errors: %s" % [str(e) for e in result.errors]
            )
    except Exception as err:
        problems.append(
            "extension `extend input In { b: Int! }` accepted although the "
            "default {a: 1} of Query.f(i:) is now invalid; the standard "
            "introspection query then raises %s: %s"
            % (type(err).__name__, err)
        )

if problems:
    print("PROPERTY C14 VIOLATED")
    for p in problems:
        print(" -", p)
    print(
        "Expected: every valid extension document yields the extended schema; "
        "an extension yielding an invalid schema is refused."
    )
    sys.exit(1)
print("ok")
