"""C14 (lower confidence, see notes): fix_type_references, used on its own as
its docstring advertises ("after modifying a schema inline where a type may
have swapped out"), re-points every reference but leaves
schema.implementations / the possible-types cache on the old object."""
import sys

from py_gql import graphql_blocking
from py_gql.schema import (
    ID,
    Field,
    InterfaceType,
    ObjectType,
    Schema,
    String,
    UnionType,
)
from py_gql.schema.fix_type_references import fix_type_references

Obj = InterfaceType("Object", [Field("id", ID)])
Person = ObjectType("Person", [Field("id", ID), Field("name", String)], interfaces=[Obj])
Animal = ObjectType("Animal", [Field("id", ID)], interfaces=[Obj])
LivingBeing = UnionType("LivingBeing", [Person, Animal])
value = {"__typename__": "Person", "id": "1", "last_name": "Doe"}
Query = ObjectType(
    "Query",
    [
        Field("being", LivingBeing, resolver=lambda *_: value),
        Field("object", Obj, resolver=lambda *_: value),
    ],
)
schema = Schema(Query)
schema.validate()
assert not graphql_blocking(
    schema, "{ being { ... on Person { id } } object { ... on Person { id } } }"
).errors

NewPerson = ObjectType(
    "Person", [Field("id", ID), Field("last_name", String)], interfaces=[Obj]
)
schema.types["Person"] = NewPerson
fix_type_references(schema)

problems = []
if schema.types["LivingBeing"].types[0] is not NewPerson:
    problems.append("union member not re-pointed")
if NewPerson not in schema.get_possible_types(schema.types["Object"]):
    problems.append(
        "possible types of interface Object: %r - the registered Person (%r) is "
        "missing, the replaced object is still there"
        % (schema.get_possible_types(schema.types["Object"]), NewPerson)
    )
if not schema.is_possible_type(schema.types["LivingBeing"], NewPerson):
    problems.append("is_possible_type(LivingBeing, <registered Person>) is False")
response = graphql_blocking(
    schema,
    "{ being { ... on Person { last_name } } object { ... on Person { last_name } } }",
).response()
if "errors" in response:
    problems.append("query on the healed schema: %r" % response["errors"])

if problems:
    print("PROPERTY C14 VIOLATED")
    for p in problems:
        print(" -", p)
    print(
        "Expected: after healing, possible types / implementations are the "
        "registered objects and the query answers "
        "{'being': {'last_name': 'Doe'}, 'object': {'last_name': 'Doe'}}."
    )
    sys.exit(1)
print("ok")
