"""C14 / C15: a schema directive that re-types an argument / input field with a
new scalar (the pattern of tests/test_sdl/test_build_schema_with_directives.py::
test_input_values) leaves the new type out of schema.types: the schema is not
closed, introspection contradicts itself, the printed SDL cannot be rebuilt,
and any unrelated directive that triggers a healing pass silently deletes the
argument / input field."""
import sys

from py_gql import build_schema, graphql_blocking
from py_gql.exc import ScalarParsingError
from py_gql.schema import Field, ScalarType, unwrap_type
from py_gql.sdl import SchemaDirective


class Short(ScalarType):
    def __init__(self, inner, max_len):
        self.inner, self.max = inner, max_len
        self.name = "Short%s_%d" % (inner.name, max_len)
        self.description = None
        self.nodes = []

    def serialize(self, value):
        return self.inner.serialize(value)

    def parse(self, value):
        value = self.inner.parse(value)
        if len(value) > self.max:
            raise ScalarParsingError("too long")
        return value

    def parse_literal(self, node, variables=None):
        return self.parse(node.value)


class Len(SchemaDirective):
    definition = "len"

    def on_argument(self, arg):
        arg.type = Short(arg.type, self.args["max"])
        return arg

    def on_input_field(self, field):
        field.type = Short(field.type, self.args["max"])
        return field


class Upper(SchemaDirective):
    definition = "upper"

    def on_field(self, field):
        return Field(
            field.name,
            field.type,
            args=field.arguments,
            description=field.description,
            deprecation_reason=field.deprecation_reason,
            node=field.node,
            resolver=lambda root, ctx, info, **kw: "UPPER",
        )


SDL = """
directive @len(max: Int!) on ARGUMENT_DEFINITION | INPUT_FIELD_DEFINITION
directive @upper on FIELD_DEFINITION
input In { baz: String @len(max: 3), other: Int }
type Query {
  foo(foo: String @len(max: 4), bar: In): String
  unrelated: String %s
}
"""

problems = []

# 1. @len alone
schema = build_schema(SDL % "", schema_directives=[Len, Upper])
arg_type = unwrap_type(schema.types["Query"].field_map["foo"].argument_map["foo"].type)
if schema.types.get(arg_type.name) is not arg_type:
    problems.append(
        "type %s of Query.foo(foo:) is not registered in schema.types (%r)"
        % (arg_type.name, schema.types.get(arg_type.name))
    )
data = graphql_blocking(
    schema,
    '{ __type(name: "Query") { fields { name args { name type { name } } } }'
    ' t: __type(name: "ShortString_4") { name } __schema { types { name } } }',
).data
reported = data["__type"]["fields"][0]["args"][0]["type"]["name"]
listed = [t["name"] for t in data["__schema"]["types"]]
if reported not in listed or data["t"] is None:
    problems.append(
        "introspection reports argument type %r but __schema.types does not "
        "list it and __type(name: %r) is %r" % (reported, reported, data["t"])
    )
try:
    build_schema(schema.to_string())
except Exception as err:
    problems.append(
        "the printed schema cannot be rebuilt: %s: %s" % (type(err).__name__, err)
    )

# 2. the same with an unrelated directive on another field
schema2 = build_schema(SDL % "@upper", schema_directives=[Len, Upper])
args = [a.name for a in schema2.types["Query"].field_map["foo"].arguments]
fields = [f.name for f in schema2.types["In"].fields]
if args != ["foo", "bar"] or fields != ["baz", "other"]:
    problems.append(
        "adding @upper to Query.unrelated deleted elements nobody targeted: "
        "Query.foo arguments %r (expected ['foo', 'bar']), In fields %r "
        "(expected ['baz', 'other'])" % (args, fields)
    )

if problems:
    print("PROPERTY C14 / C15 VIOLATED")
    for p in problems:
        print(" -", p)
    sys.exit(1)
print("ok")
