"""C20 (minor): the sequence of reported changes depends on the order of the
type / directive definitions of the two schemas."""
import sys

from py_gql import build_schema
from py_gql.schema.differ import diff_schema

OLD = [
    "type Query { a: A, b: B, u: U }",
    "type A { x: Int }",
    "type B { y: Int }",
    "union U = A | B",
    "directive @d(a: Int) on FIELD",
    "directive @e on FIELD",
]
NEW = [
    "type Query { a: A, u: U }",
    "type A { x: String }",
    "union U = A",
    "directive @d(a: String) on FIELD",
]


def report(old_defs, new_defs):
    return [
        c.message
        for c in diff_schema(
            build_schema("\n".join(old_defs)), build_schema("\n".join(new_defs))
        )
    ]


forward = report(OLD, NEW)
backward = report(OLD[::-1], NEW[::-1])
assert sorted(forward) == sorted(backward)  # same set of changes
if forward != backward:
    print("PROPERTY C20 VIOLATED: same schemas, definitions written in another order")
    for a, b in zip(forward, backward):
        print("  %-60s | %s" % (a, b))
    print("Expected: the same report for the same pair of schemas.")
    sys.exit(1)
print("ok")
