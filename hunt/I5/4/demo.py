"""C14 / C15: the library's own ENUM_VALUE schema-directive example
(tests/test_sdl/test_build_schema_with_directives.py::test_enum_value_directive)
combined with a default value: defaults keep the Python value of the *old*
enum value, `{ f }` and `{ f(c: RED) }` disagree, and the standard
introspection query / the printer raise UnknownEnumValue."""
import sys

from py_gql import build_schema, graphql_blocking
from py_gql.schema import EnumValue
from py_gql.sdl import SchemaDirective
from py_gql.utilities import introspection_query

VALUES = {"RED": "#FF4136", "BLUE": "#0074D9"}


class CSSColorDirective(SchemaDirective):
    definition = "cssColor"

    def on_enum_value(self, enum_value):
        return EnumValue(
            enum_value.name,
            VALUES[enum_value.name],
            description=enum_value.description,
            deprecation_reason=enum_value.deprecation_reason,
        )


schema = build_schema(
    """
    directive @cssColor on ENUM_VALUE
    enum Color { RED @cssColor BLUE @cssColor }
    input In { c: Color = BLUE }
    type Query { f(c: Color = RED, i: In = {}): String }
    """,
    schema_directives=[CSSColorDirective],
)


def resolve_f(root, ctx, info, **kwargs):
    return "c=%s i.c=%s" % (kwargs["c"], kwargs["i"]["c"])


schema.register_resolver("Query", "f", resolve_f)

problems = []

data = graphql_blocking(
    schema, "{ implicit: f explicit: f(c: RED, i: {c: BLUE}) partial: f(i: {}) }"
).data
if not (data["implicit"] == data["explicit"] == data["partial"]):
    problems.append(
        "the declared defaults (c: RED, i.c: BLUE) and the same values written "
        "out reach the resolver differently: %r" % dict(data)
    )

try:
    result = graphql_blocking(schema, introspection_query())
    if result.errors:
        problems.append("introspection errors: %r" % [str(e) for e in result.errors])
    else:
        args = [
            a
            for t in result.data["__schema"]["types"]
            if t["name"] == "Query"
            for a in t["fields"][0]["args"]
        ]
        if [a["defaultValue"] for a in args] != ["RED", "{c: BLUE}"]:
            problems.append("reported defaults: %r" % args)
except Exception as err:
    problems.append(
        "the standard introspection query raises %s: %s" % (type(err).__name__, err)
    )

try:
    schema.to_string()
except Exception as err:
    problems.append("schema.to_string() raises %s: %s" % (type(err).__name__, err))

if problems:
    print("PROPERTY C14 / C15 VIOLATED")
    for p in problems:
        print(" -", p)
    print(
        "Expected: defaults RED / BLUE denote the enum values as transformed "
        "(#FF4136 / #0074D9) on every path; introspection reports the "
        "defaultValues 'RED' and '{c: BLUE}' and does not raise."
    )
    sys.exit(1)
print("ok")
