"""C14: a type resolver that returns the ObjectType object (allowed:
TypeResolver = Callable[..., Union[ObjectType, str]]) stops working on every
clone / transform / extension of the schema."""
import sys

from py_gql import graphql_blocking
from py_gql.schema import Field, ObjectType, Schema, String, UnionType, InterfaceType
from py_gql.schema.transforms import transform_schema
from py_gql.sdl import extend_schema

Named = InterfaceType(
    "Named", [Field("name", String)], resolve_type=lambda v, c, i: Dog
)
Dog = ObjectType("Dog", [Field("name", String)], interfaces=[Named])
Cat = ObjectType("Cat", [Field("name", String)], interfaces=[Named])
Pet = UnionType(
    "Pet", [Dog, Cat], resolve_type=lambda v, c, i: Dog if v["k"] == "dog" else Cat
)
Query = ObjectType(
    "Query",
    [
        Field("pet", Pet, resolver=lambda *_: {"k": "dog", "name": "Rex"}),
        Field("named", Named, resolver=lambda *_: {"k": "dog", "name": "Rex"}),
    ],
)
schema = Schema(Query)
QUERY = "{ pet { __typename ... on Dog { name } } named { __typename name } }"
EXPECTED = {
    "data": {
        "pet": {"__typename": "Dog", "name": "Rex"},
        "named": {"__typename": "Dog", "name": "Rex"},
    }
}

assert graphql_blocking(schema, QUERY).response() == EXPECTED

problems = []
for label, make in [
    ("schema.clone()", lambda: schema.clone()),
    ("transform_schema(schema) (no transform at all)", lambda: transform_schema(schema)),
    (
        'extend_schema(schema, "extend type Query { other: Int }")',
        lambda: extend_schema(schema, "extend type Query { other: Int }"),
    ),
]:
    derived = make()
    try:
        response = graphql_blocking(derived, QUERY).response()
    except Exception as err:
        problems.append("%s: query raises %s: %s" % (label, type(err).__name__, err))
    else:
        if response != EXPECTED:
            problems.append("%s: query answers %r" % (label, response))

# the source itself is still fine
assert graphql_blocking(schema, QUERY).response() == EXPECTED

if problems:
    print("PROPERTY C14 VIOLATED (type resolvers are not preserved in a usable way)")
    for p in problems:
        print(" -", p)
    print("Expected on every derived schema: %r" % EXPECTED)
    sys.exit(1)
print("ok")
