"""C14: Schema.clone / transform_schema ("creates a deep clone of the schema ...
to prevent accidental side effects") share EnumValue objects (and directive
location lists, default-value containers) with the source: a visitor working
in place on the clone - the style of the library's own visitors and tests -
modifies the SOURCE schema."""
import sys

from py_gql import build_schema, graphql_blocking
from py_gql.schema import SchemaVisitor
from py_gql.schema.transforms import transform_schema

source = build_schema(
    """
    directive @d on FIELD
    enum Role { USER ADMIN }
    input In { l: [Int] }
    type Query { role(x: In = {l: [3]}): Role }
    """
)


class PublicApi(SchemaVisitor):
    """Marks internal enum values as deprecated in the public variant."""

    def on_enum_value(self, enum_value):
        if enum_value.name == "ADMIN":
            enum_value.deprecated = True
            enum_value.deprecation_reason = "internal only"
        return enum_value

    def on_argument(self, arg):
        if arg.has_default_value and isinstance(arg.default_value, dict):
            arg.default_value["l"].append(99)
        return arg

    def on_directive(self, directive):
        directive.locations.append("QUERY")
        return super().on_directive(directive)


QUERY = '{ __type(name: "Role") { enumValues { name } } }'  # deprecated ones hidden
printed_before = source.to_string()
values_before = graphql_blocking(source, QUERY).data["__type"]["enumValues"]

public = transform_schema(source, PublicApi())

printed_after = source.to_string()
values_after = graphql_blocking(source, QUERY).data["__type"]["enumValues"]

problems = []
if values_after != values_before:
    problems.append(
        "SOURCE introspection of Role.enumValues: before %r, after %r"
        % (values_before, values_after)
    )
if printed_after != printed_before:
    problems.append(
        "SOURCE SDL changed:\n--- before\n%s\n--- after\n%s"
        % (printed_before, printed_after)
    )
if source.types["Role"].values[1] is public.types["Role"].values[1]:
    problems.append("source and transformed schema share the EnumValue objects")

if problems:
    print("PROPERTY C14 VIOLATED (clone-based transform modified its source)")
    for p in problems:
        print(" -", p)
    sys.exit(1)
print("ok")
