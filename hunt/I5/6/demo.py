"""C14: Schema._replace_types_and_directives compares Python classes instead of
GraphQL kinds: a SCALAR schema directive cannot swap the placeholder scalar for
a ScalarType subclass (RegexType), and no transform can remove a field from an
instance of an ObjectType / InputObjectType / EnumType subclass."""
import sys

from py_gql import build_schema, graphql_blocking
from py_gql.schema import (
    Field,
    InputField,
    InputObjectType,
    Argument,
    Int,
    ObjectType,
    RegexType,
    Schema,
)
from py_gql.schema.transforms import VisibilitySchemaTransform, transform_schema
from py_gql.sdl import SchemaDirective

problems = []


# 1. schema directive implementing a scalar
class Pattern(SchemaDirective):
    definition = "pattern"

    def on_scalar(self, scalar):
        return RegexType(scalar.name, self.args["re"], description=scalar.description)


try:
    schema = build_schema(
        """
        directive @pattern(re: String!) on SCALAR
        scalar Zip @pattern(re: "^[0-9]{5}$")
        type Query { f(z: Zip): String }
        """,
        schema_directives=[Pattern],
    )
    response = graphql_blocking(schema, '{ f(z: "abc") }', root={"f": "x"}).response()
    if "errors" not in response:
        problems.append("@pattern not applied: %r" % response)
except Exception as err:
    problems.append(
        "SCALAR directive returning a RegexType: %s: %s" % (type(err).__name__, err)
    )


# 2. visibility transform on a schema using subclasses of the type classes
class MyObject(ObjectType):
    """e.g. carries application metadata"""


class MyInput(InputObjectType):
    pass


class HideSecret(VisibilitySchemaTransform):
    def is_type_visible(self, name):
        return name != "Secret"


Secret = ObjectType("Secret", [Field("x", Int)])
Thing = MyObject("Thing", [Field("a", Int), Field("secret", Secret)])
for label, query_type in [
    (
        "ObjectType subclass",
        ObjectType("Query", [Field("thing", Thing)]),
    ),
    (
        "InputObjectType subclass",
        ObjectType(
            "Query",
            [
                Field(
                    "f",
                    Int,
                    args=[
                        Argument(
                            "i",
                            MyInput(
                                "In",
                                [
                                    InputField("a", Int),
                                    InputField("s", InputObjectType("Secret", [InputField("x", Int)])),
                                ],
                            ),
                        )
                    ],
                )
            ],
        ),
    ),
]:
    try:
        hidden = transform_schema(Schema(query_type), HideSecret())
    except Exception as err:
        problems.append(
            "hiding an element of an %s instance: %s: %s"
            % (label, type(err).__name__, err)
        )

if problems:
    print("PROPERTY C14 VIOLATED")
    for p in problems:
        print(" -", p)
    print(
        "Expected: the transforms succeed (Zip is still a scalar, Thing still "
        "an object type, In still an input object type)."
    )
    sys.exit(1)
print("ok")
