"""C15: a custom scalar (JSON) argument / input field / directive argument with
an object or list default: the schema is valid and executes, but the standard
introspection query raises ValueError (so does the printer)."""
import sys

from py_gql import build_schema, graphql_blocking
from py_gql.lang import ast as _ast, parse_value
from py_gql.schema import Argument, Field, ObjectType, ScalarType, Schema, String
from py_gql.utilities import introspection_query, value_from_ast


def parse_json_literal(node, variables):
    if isinstance(node, _ast.ObjectValue):
        return {f.name.value: parse_json_literal(f.value, variables) for f in node.fields}
    if isinstance(node, _ast.ListValue):
        return [parse_json_literal(v, variables) for v in node.values]
    if isinstance(node, _ast.NullValue):
        return None
    if isinstance(node, _ast.IntValue):
        return int(node.value)
    if isinstance(node, _ast.FloatValue):
        return float(node.value)
    if isinstance(node, _ast.Variable):
        return variables.get(node.name.value)
    return node.value


JSON = ScalarType(
    "JSON", serialize=lambda x: x, parse=lambda x: x, parse_literal=parse_json_literal
)

problems = []


def check(label, schema, expected):
    def resolve(root, ctx, info, **kwargs):
        return repr(kwargs)

    schema.register_resolver("Query", "f", resolve)
    executed = graphql_blocking(schema, "{ f }")
    assert not executed.errors, executed.errors  # the schema is usable
    try:
        result = graphql_blocking(schema, introspection_query())
    except Exception as err:
        problems.append(
            "%s: the standard introspection query raises %s: %s"
            % (label, type(err).__name__, err)
        )
        return
    if result.errors:
        problems.append("%s: errors %r" % (label, [str(e) for e in result.errors]))
        return
    query = [t for t in result.data["__schema"]["types"] if t["name"] == "Query"][0]
    for arg in query["fields"][0]["args"]:
        back = value_from_ast(parse_value(arg["defaultValue"]), JSON)
        if back != expected[arg["name"]]:
            problems.append(
                "%s: %s reported %r, declared %r"
                % (label, arg["name"], arg["defaultValue"], expected[arg["name"]])
            )


# SDL
check(
    "SDL `f(filter: JSON = {a: 1, b: [true, null]}, tags: JSON = [])`",
    build_schema(
        """
        scalar JSON
        type Query { f(filter: JSON = {a: 1, b: [true, null]}, tags: JSON = []): String }
        """,
        additional_types=[JSON],
    ),
    {"filter": {"a": 1, "b": [True, None]}, "tags": []},
)

# Python
check(
    'Python `Argument("filter", JSON, default_value={"a": 1})`',
    Schema(
        ObjectType(
            "Query",
            [Field("f", String, args=[Argument("filter", JSON, default_value={"a": 1})])],
        )
    ),
    {"filter": {"a": 1}},
)

try:
    build_schema(
        "scalar JSON type Query { f(filter: JSON = {a: 1}): String }",
        additional_types=[JSON],
    ).to_string()
except Exception as err:
    problems.append("to_string() raises %s: %s" % (type(err).__name__, err))

if problems:
    print("PROPERTY C15 VIOLATED")
    for p in problems:
        print(" -", p)
    print(
        "Expected: defaultValue '{a: 1, b: [true, null]}' / '[]' / '{a: 1}' "
        "(GraphQL syntax that parses back to the declared default)."
    )
    sys.exit(1)
print("ok")
