"""C14 (sequence hide -> extend -> register): the result of a visibility
transform keeps the resolver-registry entries of what it removed; when an
extension later defines a field / type of the same name, extend_schema carries
the stale entry over: the registry claims a resolver the new field does not
have and registering one is refused."""
import sys

from py_gql import build_schema, graphql_blocking
from py_gql.schema.transforms import VisibilitySchemaTransform, transform_schema
from py_gql.sdl import extend_schema

source = build_schema("type Query { thing: Int, other: Int } type Mutation { m: Int }")


def old_resolver(root, ctx, info):
    return 1


def new_resolver(root, ctx, info):
    return "new"


source.register_resolver("Query", "thing", old_resolver)
source.register_resolver("Mutation", "m", old_resolver)


class Public(VisibilitySchemaTransform):
    def is_field_visible(self, typename, fieldname):
        return (typename, fieldname) != ("Query", "thing")

    def is_type_visible(self, name):
        return name != "Mutation"


public = transform_schema(source, Public())
problems = []
if "thing" in public.resolvers.get("Query", {}) or "Mutation" in public.resolvers:
    problems.append(
        "registry of the transformed schema still lists the removed elements: %r"
        % public.resolvers
    )

extended = extend_schema(
    public,
    "extend type Query { thing: String } type Mutation { m: String } "
    "extend schema { mutation: Mutation }",
)
field = extended.types["Query"].field_map["thing"]
if extended.resolvers.get("Query", {}).get("thing") is not field.resolver:
    problems.append(
        "extended schema: registry says Query.thing -> %r, the (new) field has "
        "resolver %r" % (extended.resolvers["Query"].get("thing"), field.resolver)
    )
for typename, fieldname in [("Query", "thing"), ("Mutation", "m")]:
    try:
        extended.register_resolver(typename, fieldname, new_resolver)
    except ValueError as err:
        problems.append(
            "register_resolver(%r, %r) on the brand new field: ValueError: %s"
            % (typename, fieldname, err)
        )

if problems:
    print("PROPERTY C14 VIOLATED")
    for p in problems:
        print(" -", p)
    print(
        "Expected: removed elements leave nothing behind; the new Query.thing / "
        "Mutation.m have no resolver and accept one."
    )
    sys.exit(1)
print("ok")
