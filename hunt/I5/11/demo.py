"""C15: the default of a custom scalar whose internal (Python) value is a str
is reported by introspection *without going through the scalar's serialize*:
an opaque-id scalar declared with `= "VXNlcjo0Mg=="` is reported as
`"User:42"`, which does not parse back."""
import base64
import sys

from py_gql import build_schema, graphql_blocking
from py_gql.lang import parse_value
from py_gql.schema import ScalarType
from py_gql.utilities import value_from_ast

GlobalID = ScalarType(
    "GlobalID",
    serialize=lambda v: base64.b64encode(v.encode()).decode(),
    parse=lambda v: base64.b64decode(v.encode(), validate=True).decode(),
)

schema = build_schema(
    """
    scalar GlobalID
    input In { id: GlobalID = "VXNlcjo0Mg==" }
    type Query {
      node(id: GlobalID = "VXNlcjo0Mg==", ids: [GlobalID] = ["VXNlcjo0Mg=="], in: In): String
    }
    """,
    additional_types=[GlobalID],
)

data = graphql_blocking(
    schema,
    '{ q: __type(name: "Query") { fields { args { name defaultValue } } }'
    '  i: __type(name: "In") { inputFields { name defaultValue } } }',
).data

problems = []
reported = {a["name"]: a["defaultValue"] for a in data["q"]["fields"][0]["args"]}
reported["In.id"] = data["i"]["inputFields"][0]["defaultValue"]
declared = {
    "id": ('"VXNlcjo0Mg=="', GlobalID, "User:42"),
    "In.id": ('"VXNlcjo0Mg=="', GlobalID, "User:42"),
    "ids": ('["VXNlcjo0Mg=="]', schema.types["Query"].field_map["node"].argument_map["ids"].type, ["User:42"]),
}
for name, (sdl, type_, value) in declared.items():
    got = reported[name]
    try:
        back = value_from_ast(parse_value(got), type_)
    except Exception as err:
        back = "%s: %s" % (type(err).__name__, err)
    if back != value:
        problems.append(
            "%s: declared %s, introspection reports %s, which parses back to %r "
            "instead of %r" % (name, sdl, got, back, value)
        )

if problems:
    print("PROPERTY C15 VIOLATED")
    for p in problems:
        print(" -", p)
    print("(the list position `ids` and schema.to_string() report the declared literal)")
    sys.exit(1)
print("ok")
