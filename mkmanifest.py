#!/usr/bin/env python3
"""Regenerates MANIFEST.json from the table below (kept in one place so it stays valid)."""
import json

CLAIMS = {
    # pid: (category, technique, text, note, design_ref)
}
PENDING_REASON = "check not built yet in this session (planned in DESIGN.md; not claimed until it is green and mutation-tested)"

ALL = ["C%02d" % i for i in range(1, 21)]


def main():
    try:
        from claims import CLAIMS as C
    except ImportError:
        C = {}
    checks = []
    for pid in ALL:
        if pid not in C:
            continue
        c = C[pid]
        checks.append({
            "property_id": pid,
            "quick_cmd": "./check %s --tier quick" % pid,
            "thorough_cmd": "./check %s --tier thorough" % pid,
            "evidence_file": "evidence/%s.json" % pid,
            "replay_cmd_template": "./check replay {path}",
            "engine": c.get("engine", "pyvc+rtc"),
            "level_claimed": {"category": c["category"], "text": c["text"], "design_ref": c.get("design_ref", "DESIGN.md §6/" + pid)},
            "level_note": c["note"],
            "technique": c["technique"],
        })
    man = {
        "version": 1,
        "setup_cmd": "./setup.sh",
        "hooks": {
            "guard": "PY_GQL_VERIF",
            "enable": "no source hooks: contracts are sidecar files under /verif/contracts; the check processes set PY_GQL_VERIF=1 and "
                      "install run-time contract wrappers by rebinding references after import (vf/rtc.py); /repo is read, never edited",
            "baseline_off_cmd": "cd /repo && /venv/bin/python -m pytest -ra -q -p no:cacheprovider --timeout=900 --continue-on-collection-errors",
            "source_commits": [],
            "add_only": True,
        },
        "engines": [
            {"name": "pyvc", "path": "vf/pyvc", "serves_properties": sorted(p for p in C if "pyvc" in C[p].get("engine", "pyvc")),
             "kind_free_text": "weakest-precondition / path-wise symbolic VC generator over the real Python source (ast re-read every run), "
                               "sidecar contracts, loops cut by invariants, calls by contract, obligations discharged by z3 (API 5.1.0)"},
            {"name": "llk", "path": "vf/llk", "serves_properties": sorted(p for p in C if "llk" in C[p].get("engine", "")),
             "kind_free_text": "predictive-parser extraction: control-flow automata of Parser.parse_* over abstract tokens from the real source; per method "
                               "and flag valuation: regular-language equality with the specification grammar's right-hand side (P1), FIRST_2/FOLLOW_2 "
                               "prediction over decision trees (P2), progress (P3), raise sites (P4), node shape and spans (P5); counterexample words "
                               "made concrete and replayed against an Earley oracle"},
            {"name": "tracecheck", "path": "vf/tracecheck.py", "serves_properties": sorted(p for p in C if "tracecheck" in C[p].get("engine", "")),
             "kind_free_text": "trace contracts (ghost event words) checked on every syntactic path of the real function, values abstracted, exceptions "
                               "dispatched by the real class hierarchy, local closures inlined, callback-taking callees by effect contract"},
            {"name": "ctorcheck", "path": "vf/ctorcheck.py", "serves_properties": sorted(p for p in C if "ctorcheck" in C[p].get("engine", "")),
             "kind_free_text": "attribute-preservation obligations: every constructor parameter of a rebuilt schema element is derived from the source element"},
            {"name": "rxcheck", "path": "vf/rxcheck.py", "serves_properties": ["C01", "C02", "C11", "C12", "C13", "C15"],
             "kind_free_text": "regular-expression contracts: the language a compiled pattern accepts at each use site (pattern parsed with the interpreter's re._parser, character sets read "
                               "from the interpreter's engine over all code points) is proved equal to the specification language by a product of subset constructions; shortest "
                               "distinguishing string replayed on the real pattern; translation co-executed with re on short strings every run"},
            {"name": "rtc", "path": "vf/rtc.py", "serves_properties": sorted(p for p in C if "rtc" in C[p].get("engine", "rtc")),
             "kind_free_text": "the same contracts checked at run time on exhaustively enumerated bounded inputs (bounded stand-in, never counted as proof)"},
        ],
        "checks": checks,
        "notes": "Contract-based deductive verification of the real code; see DESIGN.md. Exit 0 held / 1 violation / 3 machinery defect.",
        "not_applicable": [{"property_id": p, "reason": C.get("_na", {}).get(p, PENDING_REASON)} for p in ALL if p not in C],
    }
    json.dump(man, open("MANIFEST.json", "w"), indent=1)
    print("MANIFEST.json: %d checks, %d not claimed" % (len(checks), len(man["not_applicable"])))


if __name__ == "__main__":
    main()
