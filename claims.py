"""What MANIFEST.json claims, per property (see mkmanifest.py)."""
CLAIMS = {}
