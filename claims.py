"""What MANIFEST.json claims, per property (see mkmanifest.py)."""
BND = "bounded stand-in only; not a proof. "

CLAIMS = {
    "C01": dict(
        category="other", engine="pyvc+llk+rtc",
        technique="contract-based deductive verification: WP/VC generation from the real Lexer source discharged by z3 (Engine A) + per-method grammar "
                  "extraction from the real Parser source with language-equality / prediction / progress obligations against the specification grammar "
                  "(Engine B) + run-time contracts on enumerated inputs",
        text="Lexical half proved: every Lexer method and index_to_loc verified against the functional lexical specification for all texts (860+ "
             "obligations discharged by z3 on every run, counter-models replayed on the real code). Syntactic half: for each of the 64 Parser.parse_* "
             "methods + the drivers parse_value / parse_type and each of the 4 flag valuations, the method's body (callees by their nonterminal) "
             "denotes the same regular language as the specification's right-hand side (P1), no look-ahead the grammar allows is routed away from "
             "the alternative that can take it (P2, FIRST_2/FOLLOW_2), no cycle without consumption (P3), callee look-ahead preconditions hold at "
             "call sites (P0, P7), every raise site raises a syntax error positioned at a token of the text (P4): 900+ obligations; acceptance of "
             "the whole parser then follows by the LL meta-theorem, which is trusted, not machine-checked. Bounded: parser verdict == Earley verdict "
             "on an enumerated derivation corpus and its single-token edits, 8 flag combinations, str and bytes; token-stream primitives against the "
             "abstract stream; error rendering exhaustive over (text, position) pairs to the bound; recursion depth probed as the one named case.",
        note="Trusted: spec/lexical.py and spec/grammar.py transcribe the June-2018 grammar (functional lexical spec validated against a regex "
             "transcription on 600k+ strings); CPython str semantics as modelled by vf/pyvc; z3; the LL(2) meta-theorem; the six token-stream "
             "primitives of Parser behave as the abstract stream (bounded check only). Not level 'proof': the composition of the per-method "
             "obligations into 'accepts exactly the grammar' is a trusted meta-theorem. Known findings: error position len+1 at end of input inside an "
             "escape (pinned by tests), RecursionError on deep nesting."),
    "C02": dict(
        category="other", engine="pyvc+llk+rtc",
        technique="contract-based deductive verification of token payloads (pyvc/z3) + node-shape / span obligations on every node constructor call "
                  "of the real Parser source (Engine B, P5) + run-time tree/span contracts on enumerated inputs",
        text="Token payloads (verbatim names and numbers, escape decoding, raw block text, token spans) are proved for all texts as part of the "
             "Lexer contracts. For every `_ast.K(...)` call on every path of every parse method: K is a node kind the specification assigns to the "
             "method's nonterminal, the keywords are parameters of the real class with every required one passed, every slot is fed and the "
             "feeding values are produced in source order, `loc=self._loc(first token)` is evaluated after the last consumption, and Parser.__init__ "
             "binds _loc to (start.start, last.end) / None under no_location (210+ obligations). Bounded: parse_block_string == BlockStringValue "
             "and the tree-vs-source contracts (span, nesting, order, decoded leaves, spanned text reparses to an equal node, no_location) on every "
             "node of every accepted corpus text.",
        note="Trusted: spec/blockstring.py (BlockStringValue transcription), spec/lexical.py, contracts/parser_map.py (node kinds and slot order per "
             "nonterminal). parse_block_string itself is bounded only."),
    "C03": dict(
        category="other", engine="pyvc+static+rtc",
        technique="WP/VC obligations on the lexer's four string decoders (Engine A, z3) + static slot-coverage obligations on the printer (every slot of every node kind is read by its print method; all trees) + run-time contracts (round-trip, fix-point, determinism) on enumerated parser-produced trees; no deductive obligation within reach",
        text="All texts: the lexer decodes quoted and block strings as the lexical specification says (116 obligations; the parse half of the law). All trees: each of the 108 (node kind, slot) pairs is read by the print method the dispatcher selects - necessary for the round trip; the 3 unread member-description slots are the listed finding. Bounded stand-in only: for every accepted text of the derivation corpus and a string-payload family (quoted and block form, 8 syntactic "
             "positions) and 5 indent settings: printing never raises, is deterministic, output parses, parse(print(t)) == t, print is a fix-point.",
        note="Not a proof: the printer's encoders (json.dumps, str.replace) are outside the VC generator's subset. Known finding: member descriptions "
             "dropped by print_ast (pinned by tests)."),
    "C18": dict(
        category="other", engine="tracecheck+rtc",
        technique="trace contracts over every syntactic path of the real functions (ghost event words, callees by effect contract; unbounded in the inputs) + run-time contracts (visitor trace, edit locality, chain order) on enumerated parser-produced documents",
        text="All paths of the enter/leave wrapper (_visit_method): enter once first; SkipNode suppresses children and leave and returns the original node; None deletes without traversal; leave exactly once iff the node survives. Bounded stand-in: on every document of the derivation corpus the enter/leave trace is balanced, every non-Name node is entered "
             "exactly once inside its parent's events and in source order, an identity visitor changes nothing; delete / replace / skip at "
             "every entered node position change exactly that position; chained visitors enter in order and leave in reverse.",
        note="Child-slot coverage of the _visit_* methods and ChainedVisitor remain bounded. Not a proof (higher-order callbacks). Known findings, all pinned by literal event lists in tests/test_lang/test_visitor.py: "
             "descriptions, type conditions, the Variable of a definition and wrapped types are never visited; three slots out of source "
             "order; ChainedVisitor loses edits."),
    "C19": dict(
        category="other", engine="tracecheck+rtc",
        technique="trace contract over every path of MaxDepthValidationRule.__call__ (Engine P) + run-time contract on MaxDepthValidationRule against a reference depth function over enumerated fragment distributions",
        text="All paths: the maximum over selected paths has a default (flat operations do not raise), an operation is reported exactly when its depth exceeds the inclusive limit, errors carry the operation node, the operation_name filter skips other operations. Bounded stand-in: for field chains of depth 0..4 with every assignment of wrappers (none / inline / typed inline / named spread) "
             "per level, side branches, @skip at each level under both variable values, multi-operation documents, limits 0..5 and every "
             "operation filter: the errors name exactly the operations whose reference depth exceeds the limit and nothing is raised.",
        note="Not a proof (generator pipeline over selected_fields). Reference depth function written from the property statement."),
    "C07": dict(
        category="other", engine="pyvc+tracecheck+rtc",
        technique="trace contracts over every path of coerce_value / _coerce_list_value / _coerce_input_object (Engine P) + contract-based deductive verification of coerce_int (pyvc/z3) + run-time coercion contracts against a reference coercion on enumerated types x values",
        text="All paths of variable-value coercion: null rejected for non-null and accepted for nullable types before anything is parsed; scalars parsed once, enum values by name only; a non-list value becomes a one-item list, items coerced once in order; per input field: absent with default -> default under the python name, absent and required -> error, present -> coerced and stored under the python name, unknown fields rejected; only coercion errors raised; the literal route (_extract_input_object) applies the same per-field rules (17 obligations). Module frame: coercion modules keep no written module-level state. coerce_int proved for int / bool / float / None inputs: accepts exactly the integral values of [-2^31, 2^31-1], returns them unchanged, raises only "
             "ValueError. Bounded: coerce_value / value_from_ast / coerce_argument_values and the keyword arguments seen by resolvers agree with a "
             "reference transcription of the specification's input coercion over 9 named types x 7 wrapper shapes x value grids, on the variable "
             "and the literal route; rejected inputs never reach a resolver (also an explicit null for a defaulted variable at a non-null list item / input field); the arguments of a custom "
             "directive handed out by ResolveInfo.get_directive_arguments are coerced the same way; per-type argument defaults on abstract-type selections.",
        note="Trusted: vf/ref_coerce.py (specification transcription). Floats are modelled as class + real value. str inputs of coerce_int and all "
             "recursive coercion functions are bounded only. Cross-kind scalar leniency (true for Int, 1 for String) is outside the property."),
    "C13": dict(
        category="other", engine="pyvc+rtc",
        technique="contract-based deductive verification of Schema.is_subtype (pyvc/z3, structural induction + lemma) + path-wise cache-invalidation obligations + trace contracts on the validate_* rule loops + violation injection",
        text="Schema.is_subtype proved equal to the specification's covariance relation for all type expressions (reflexivity lemma by structural "
             "induction); every normal-return path of register_resolver / register_default_resolver / register_subscription that writes a resolver "
             "(and the default_resolver setter) resets every attribute validate() remembers between calls - derived from validate()'s own source - "
             "(syntactic-path obligations over the real source). All paths of validate_fields / validate_input_fields / validate_directives / validate_enum_values / "
             "validate_implementation: every rule's test is made for every element whatever else is wrong with it, and reports exactly when broken (trace contracts). "
             "Bounded: valid schemas accepted, 35 labelled violations (single and multiple) rejected with all errors reported, definition-order independence, names, "
             "re-validation histories in both directions (valid -> broken, rejected -> repaired).",
        note="Trusted: spec/typealgebra.valid_impl_type; possible-type membership uninterpreted in the proof; is_input_type / is_output_type and the resolver-signature "
             "check are bounded only."),
    "C20": dict(
        category="other", engine="pyvc+rtc",
        technique="contract-based deductive verification of the safe-type-change predicates (pyvc/z3, induction through own contracts) + run-time contracts on elementary edits",
        text="_is_safe_input_type_change / _is_safe_output_type_change proved sound ('safe' implies at least as permissive / strict) and reflexive "
             "for all type expressions, by induction through their own contracts. Bounded: 50+ labelled elementary edits in both directions are "
             "reported with a change naming the element, equal schemas report nothing, no BREAKING change implies 35 client operations stay valid, "
             "definition-order and hash-seed independence.",
        note="Trusted: spec/typealgebra in_ok/out_ok. Known findings: output list items compared with the input rule (pinned by tests); safe retypes "
             "are not reported at all."),
    "C04": dict(
        category="other", engine="tracecheck+rtc",
        technique="trace contracts over every syntactic path of the executor skeleton (Engine P) + memo-key data-flow obligations on the per-request memos of the execution context + run-time functional contract (ordered data + error multiset + resolver arguments == reference execution algorithm) over generated operations x resolver worlds",
        text="All requests within one context: each of the five per-request memos (collected fields, field definitions, coerced arguments, directive arguments, wrapped resolvers) is looked up and stored under a key that determines every input of the cached computation (of a value's attributes only its name, or the value's identity, determine it) and reads only state fixed at construction; the execution modules write no module-level state. All paths: complete_value handles a non-null wrapper before the null test, completes null to null without side effects, serialises a leaf exactly once, executes a composite value's collected sub-selection exactly once and raises only RuntimeError / TypeError itself; _handle_non_nullable_value records exactly one error for a null and returns the value unchanged; both execute_fields resolve each grouped field once, in order, under its key. Bounded: for hand-written merge/fragment patterns plus a seeded generator of valid operations (aliases, same-key merging, fragments at every "
             "placement, directives with variables, abstract types, lists, arguments) and worlds placing null / ResolverError / null list item / empty "
             "list / unexpected exception / errors with a path or a constructor of their own at every resolved path, composite values as dicts and as objects of one Python class, both synchronous executors produce exactly the reference result; results are "
             "independent of earlier requests on the same schema object.",
        note=BND + "Trusted: vf/ref_exec.py + vf/ref_coerce.py (specification transcriptions). The executor is outside the VC generator's subset."),
    "C08": dict(
        category="other", engine="tracecheck+rtc",
        technique="map_value effect contract checked on all three runtime implementations, gather_futures' ordering, unwrap_future never waiting and complete_value failing the request for unrepresentable leaves (Engine P, all paths, coroutines / done-callbacks sequentialised) + run-time functional contract under every enumerated completion order of parked resolver tasks (stateless DFS over schedules), 6 configurations",
        text="BlockingRuntime.map_value, AsyncIORuntime.map_value and the thread pool's chain each satisfy the map_value effect contract on every path (then exactly once when the value arrives, else handler only for a matching failure, the target future settled exactly once); gather_futures keeps one slot per source value in source order and fails on the first failure (17 obligations). Bounded: BlockingExecutor, Executor on Blocking / AsyncIO / ThreadPool runtimes each satisfy the C04 contract for every completion order of "
             "the in-flight tasks (thread pool replaced by a parking executor incl. tasks that finish at submit time; asyncio resolvers gated by harness "
             "futures); the asyncio runtime in its default mode (built without a loop argument, plain resolvers offloaded to real worker threads) and the thread-pool runtime on a real pool give the same outcome, data, errors and invocations; what the thread pool has in flight together the asyncio runtime has too; unexpected exceptions - also of the library's own non-resolver error classes - surface unchanged; nothing stays pending once all tasks ran.",
        note=BND + "Callbacks are atomic (one thread): pre-emptive thread interleavings inside done-callbacks and fair termination are outside this family's reach."),
    "C09": dict(
        category="other", engine="tracecheck+rtc",
        technique="trace contracts over every syntactic path of the real functions (ghost event words, callees by effect contract; unbounded in the inputs) + run-time serial-trace contract on the resolver event log for every enumerated completion order",
        text="All paths: execute() runs a mutation with execute_fields_serially exactly once and refuses other operation kinds before any field; Executor.execute_fields_serially takes fields from the front, resolves one per step, stores the value and continues only inside the `then` continuation of the previous field's completed value, always continuing. Bounded: for mutations with 1..4 top-level fields (also reached through fragments), nested deferred sub-fields and failures at each position, "
             "under all 4 configurations and every completion order: a later top-level resolver is invoked only after every resolver below the earlier "
             "field finished; result == reference in document order.",
        note=BND + "The trace contracts assume the map_value effect contract for the asynchronous runtimes (bounded by C08). Atomic callbacks; see C08."),
    "C10": dict(
        category="other", engine="tracecheck+rtc",
        technique="trace contracts over every syntactic path of the real functions (ghost event words, callees by effect contract; unbounded in the inputs) + run-time response-format contracts on enumerated request outcomes (every failure stage, every truncation point)",
        text="All paths: process_graphql_query builds a result without data before execution (syntax / validation failure) and with data = None for request errors raised by execute(); GraphQLResult.response adds errors / data / extensions exactly when present, in that order, errors through to_dict(). Bounded: strict JSON, error entries (message, 1-based line/column inside the document, path of keys/indices), extensions pass-through, data "
             "omitted for syntax / validation failures, data null + errors for request errors, one error per failed position, for executions with "
             "failures everywhere, every prefix of request texts, invalid documents and variable errors; a field error is located at its field (also in column 1 of a later line); "
             "response() lists every recorded error; graphql_blocking and the asynchronous graphql answer like process_graphql_query.",
        note=BND + "Known findings: misspelt 'columne' key and IndexError when rendering the len+1 position (both pinned by tests)."),
    "C14": dict(
        category="other", engine="ctorcheck+rtc",
        technique="attribute-preservation obligations on every rebuild site (constructor-argument analysis of the real source, all inputs) + frame obligations: extending mutates nothing it was given (alias analysis) + run-time data-structure invariants (closed registry, source frame, removed unreachable, untargeted preserved) as postconditions of schema operations over operation sequences",
        text="All inputs: no _extend_* method and no function of the SDL builder writes into the elements it was given (20 obligations); at each of the 18 sites that rebuild a schema element (ASTTypeBuilder._extend_*, SchemaVisitor.on_*, CamelCaseSchemaTransform.on_*) every __init__ parameter of the rebuilt class is passed and derived from the source element's attribute (110 obligations). Bounded: clone, 11 visibility predicates, camel-casing and 9 extension documents applied to a source schema carrying resolvers, default / "
             "subscription resolvers, type resolvers and python names - each alone, in sequences of 2-3 on the same source, and chained. After every "
             "operation: every reference in the result is the object registered under its name (fields, arguments, interfaces, members, roots), the "
             "source's deep snapshot is unchanged and the source is still closed, hidden elements are unreachable through the registry and "
             "introspection, everything the operation does not target is preserved, and the result validates and prints.",
        note=BND + "Trusted: vf/ref_sdl.closed / snapshot. The heal loop (fix_type_references <-> _replace_types_and_directives) mutates object graphs through "
             "visitors and is outside the VC generator's subset."),
    "C15": dict(
        category="other", engine="tracecheck+rtc",
        technique="trace contract over every path of _format_default_value (Engine P) + module-state obligation (no written module-level container, or a memo whose key determines every read: vf/modstate.py) + run-time contract: introspection result == schema objects member by member; defaultValue parses and coerces back to the declared default",
        text="All histories: no function of the introspection module writes a module-level container (a memo would have to be keyed by everything its computation reads), so what a resolver reports depends on the live schema objects only. All paths: defaultValue is null exactly without a declared default; a declared default is rendered by printing the value node of the declared type - except string defaults of scalar type, which are wrapped in quotes unescaped (the listed finding, reproduced as the one failing path). Bounded: SDL-built and code-built schemas (defaults of every kind, deprecations, custom directives) x the standard introspection query "
             "with and without descriptions, includeDeprecated true / false / default and the disable switch (aliased meta fields stay hidden, ordinary fields aliased like meta fields stay visible): kinds, names, descriptions, wrapped type "
             "chains, fields, arguments, input fields, enum values, interfaces, possible types, directives and locations, roots and deprecations equal "
             "the schema; every defaultValue is GraphQL text that coerces back to the declared default.",
        note=BND + "Known finding: string defaults nested in lists / input objects are not escaped (partially repaired by a fix: commit; the rest is pinned by tests)."),
    "C16": dict(
        category="other", engine="tracecheck+rtc",
        technique="trace contracts over every syntactic path of the real functions (ghost event words, callees by effect contract; unbounded in the inputs) + run-time hook / middleware trace contracts over request outcomes x runtimes x completion orders",
        text="All paths: stage hooks of process_graphql_query / execute / subscribe fire at most once, properly nested, ended whenever a result is returned, execution stage only for accepted requests and ended in the continuation of the root selection's value (field hooks lie inside it); field hooks of both resolve_field implementations fire exactly once around the resolver on every returning path; MultiInstrumentation runs start hooks in order and end hooks in reverse (81 obligations). Bounded: stage hooks paired, properly nested, at most once, ended even on errors; field hooks exactly once per resolved field around the "
             "resolver call; middlewares exactly once in the documented nesting; stacked instrumentations start in order and end in reverse; all 4 "
             "configurations and completion orders.",
        note=BND + "Assumed: map_value effect contract for asynchronous runtimes; hooks do not raise; complete_value raises no resolver error. Middleware nesting is bounded only. Ghost-trace contracts over callbacks are evaluated at run time only."),
    "C17": dict(
        category="other", engine="tracecheck+rtc",
        technique="trace contracts over every syntactic path of the real functions (ghost event words, callees by effect contract; unbounded in the inputs) + run-time per-event contract against the reference executor over enumerated event sequences",
        text="All paths: subscribe / create_source_event_stream raise their refusals before the source stream is created or the subscription resolver invoked; an execution stage that subscribe started is ended on every path, refusals included; execute_subscription_event clears the shared error list before executing each event and builds one result from that event's data. Bounded: all event sequences of length 0..3 over {ok, root resolver error, nested error / null in non-null}, sync and async subscription "
             "resolvers, delays: one result per event in order, k-th result == selection executed on the k-th event with only its errors (also after an "
             "event that failed unexpectedly); seven refusal cases are raised before the source stream is advanced.",
        note=BND + "Concurrent pulls by a consumer that does not await are not covered."),
    "C05": dict(
        category="other", engine="static+rtc",
        technique="static exception-escape obligations over the validator's source (explicit raises, guarded schema lookups) + run-time contracts: validate_ast never raises; validated => executes per the reference executor with unambiguous response keys",
        text="All inputs: every explicit raise in py_gql.validation is the traversal's SkipNode signal under an enter_* method, every schema lookup that raises UnknownType is guarded, validate_ast / default_validator raise nothing themselves (20 obligations; implicit exceptions are bounded only). Bounded: over hand-written adversarial documents, generated valid operations, single-token mutations of both and the derivation corpus "
             "over arbitrary names, validate_ast returns its error list without raising; every accepted operation executes without internal "
             "exception, with the data the reference executor determines, and no response key merges different fields.",
        note=BND + "Exception-escape analysis over the visitor-based validator is outside the VC generator's subset."),
    "C06": dict(
        category="other", engine="pyvc+rtc",
        technique="contract-based deductive verification of _types_conflict (pyvc/z3, induction through own contract) + run-time verdict equality with a reference implementation of the 26 validation rules + metamorphic invariance; is_subtype proved (C13)",
        text="Proved for all type expressions: _types_conflict == the specification's SameResponseShape on types (exactly one non-null / exactly one list / differing leaves). Bounded: validate_ast's verdict equals that of a comprehension-style reference implementation of section 5 of the specification on "
             "labelled single-rule violations, generated operations and their mutations; each labelled violation is reported; the verdict is "
             "unchanged by permuting definitions, reversing selections / arguments / variable definitions, consistent renaming and re-spacing.",
        note=BND + "Trusted: vf/ref_validate.py (276 self-test cases incl. the specification's own examples)."),
    "C11": dict(
        category="other", engine="tracecheck+rtc",
        technique="trace contract over every path of the definition collector (Engine P) + run-time structural equality between a declarative reading of the SDL and the built schema, over orders and extension splits",
        text="All paths of _collect_definitions: a second definition of a type / directive name or a second schema definition is rejected with an SDL error, never overwritten, and nothing but SDL errors is raised there. Module frame: the SDL builder modules keep no written module-level state. Bounded: describe(build_schema(doc)) == describe_sdl(doc) and closed(schema) for the base schema, 50+ edited variants and documents with "
             "recursion / defaults / descriptions / deprecations / schema definitions, under definition permutations, random splits of members into "
             "extend blocks, ignore_extensions and additional_types; extending a built base with the rest of a document (defining and extending new types in any order, strict or not) equals building the whole; 23 labelled invalid documents raise only schema / SDL errors.",
        note=BND + "Known finding: defaults are coerced before extensions are merged."),
    "C12": dict(
        category="other", engine="rtc",
        technique="frame obligations on the serialisation code (no consumable module state read; no in-place mutation of argument state, by alias analysis of the real source; module-level memo keys cover what they cache) + run-time round-trip / fix-point / history contracts",
        text="The serialisation modules hold no consumable module-level state that their functions read (generators / iterators), checked on the live "
             "modules; no method of the schema printer and no function it prints through mutates state reachable from its arguments (18 obligations); the printer modules write no module-level container unless as a memo whose key determines every value the computation reads. Bounded: schema -> SDL -> schema structural identity (defaults in external form), text fix-point, parser acceptance for 11 "
             "schemas x 6 option sets; every call of 2-3 call sequences equals the first call of a fresh process.",
        note=BND + "Trusted: vf/ref_sdl.describe; build_schema (C11)."),
}

# additions of seed rounds 7 and 8 (what the bounded parts also cover now)
_ADDENDA = {
    "C01": "parse(text) with default options accepts exactly the executable grammar.",
    "C02": "The same tree with the same spans whether the text is submitted as str or UTF-8 bytes, with or without a leading byte order mark; every node refers back to the submitted text.",
    "C04": "The library's own default resolver follows its documented lookup for mappings, objects and methods (also for field names that are dict / list / str methods); "
           "an operation name selects among the operations and must name one, also on one-operation documents.",
    "C05": "A validated document has a determined response shape (FieldsOnCorrectType / ScalarLeafs re-derived by the reference).",
    "C06": "A second schema with partly overlapping interfaces, a union, list arguments and input fields with defaults.",
    "C09": "Also for a schema whose mutation root is its query root.",
    "C12": "A schema printed, edited in place and printed again gives the text of the edited schema.",
    "C14": "The result of a clone-based operation shares no field, argument, input field, enum value, user type or directive object with its source.",
    "C16": "A falsy (empty, sized) instrumentation member receives its hooks like any other.",
    "C17": "Re-iterable sources, bare scalar and falsy events, an initial value that is no event.",
    "C18": "DispatchingVisitor hands every node to the hooks of its own kind (documents covering 40+ node kinds).",
    "C19": "The rule raises nothing when the variables are missing, null or of the wrong kind, wherever the steering directive stands.",
    "C20": "min_severity is a filter on the unfiltered report; a type changing its kind is reported, never a crash.",
}
for _k, _t in _ADDENDA.items():
    CLAIMS[_k]["text"] = CLAIMS[_k]["text"].rstrip() + " " + _t

# additions of seed round 9 and of the obligations added with it: (technique suffix, text suffix)
_ROUND9 = {
    "C01": ("regular-expression language obligations on LINE_SEPARATOR at its use sites (vf/rxcheck.py)",
            "The pattern the error rendering splits lines with accepts exactly LF, CR and CRLF and takes CRLF whole."),
    "C02": ("regular-expression language obligations on LINE_SEPARATOR.split in parse_block_string (vf/rxcheck.py)",
            "Block-string lines are split at exactly LF, CR and CRLF (CRLF whole), for all strings; bounded: the tree is unchanged by re-spelling the ignored tokens between its tokens."),
    "C07": ("contract-based deductive verification of coerce_float (pyvc/z3)",
            "coerce_float returns finite floats only, accepts exactly finite floats, bools and integers below 2**1024, and raises only ValueError (int / bool / float / None inputs)."),
    "C10": ("contract-based deductive verification of coerce_float, the Float serialiser (pyvc/z3)",
            "A Float leaf written into a response is finite (NaN and the infinities, which strict JSON cannot carry, are rejected), for all int / bool / float / None inputs."),
    "C12": ("regular-expression language obligations on the default-value printer's _INT_RE / _FLOAT_RE / _NAME_RE (vf/rxcheck.py)",
            "Strings printed unquoted as numbers / names in default values are exactly the grammar's IntValue / FloatValue / Name, for all strings; bounded: string payloads (astral, quotes, backslashes, controls) at every string position and names equal up to case."),
    "C13": ("regular-expression language obligation VALID_NAME_RE == Name without a leading __ (vf/rxcheck.py) + frame obligations: no function of the validation module writes into the schema it judges",
            "_is_valid_name accepts exactly the grammar's names that do not begin with two underscores, for all strings; validating leaves no trace on the schema, so the verdict is a function of its current state."),
    "C14": ("derived-state obligations on Schema (every memo attribute is rebuilt by _invalidate_and_rebuild_caches)",
            "Every attribute a Schema method fills on demand is assigned afresh by the helper every in-place change ends with."),
    "C15": ("regular-expression language obligations on the default-value printer's patterns + decorator-memo obligations (vf/rxcheck.py, vf/modstate.py)",
            "Reported default values classify strings as numbers / names exactly as the grammar does; no process-wide memo of the renderer conflates 1, true and 1.0."),
    "C16": ("trace contract on apply_middlewares (Engine P)",
            "apply_middlewares wraps every middleware exactly once around the chain built so far, in sequence order (last outermost); members of a combined instrumentation may implement any subset of the hooks."),
    "C17": ("", "The response stream is one pass over the source however it is consumed (resumed after a break, advanced by __anext__ first)."),
    "C08": ("", "Runtime.gather_values gives the list of member values position by position, also when one pending value stands at several positions, for every completion order."),
    "C18": ("trace contracts on ChainedVisitor.enter / leave (Engine P)",
            "Chained visitors iterate the chain's current members forward on enter and reversed on leave, each once per node event, and do not swallow a member's skip signal (all paths)."),
    "C06": ("", "Identical arguments in different relative orders on same-key fields; several subscriptions sharing fragments."),
    "C20": ("", "Fragments on sibling members below a field narrowed from an abstract type to one member."),
}
for _k, (_tech, _t) in _ROUND9.items():
    if _tech:
        CLAIMS[_k]["technique"] = CLAIMS[_k]["technique"].rstrip() + " + " + _tech
    CLAIMS[_k]["text"] = CLAIMS[_k]["text"].rstrip() + " " + _t

# additions of seed rounds 10 and 11
_ROUND11 = {
    "C02": ("module-state / decorator-memo obligations on the parser modules", "Every call of parse returns a tree of its own (no node shared between two parses of one text)."),
    "C04": ("trace contract on collect_fields._merge (Engine P)", "Merging collected groups never removes a key (response keys keep the place of their first occurrence), loses nothing and appends each group once (all paths)."),
    "C09": ("trace contract on collect_fields._merge (Engine P)", "Response keys keep the place of their first occurrence when collected groups are merged (all paths), so a repeated top-level key does not move a mutation field's turn."),
    "C05": ("", "An accepted document is executed once per possible runtime type of every abstract top-level field."),
    "C06": ("frame obligations: no function of py_gql.validation writes into the schema or the document (alias / mutation analysis with protected roots)",
            "Validating leaves schema and document untouched (198 functions), so the verdict is a function of the two as they are."),
    "C11": ("regular-expression language obligation on VALID_NAME_RE + frame obligations on the builder (it writes nothing into nodes, supplied types or a base schema)",
            "Building / extending leaves what it was given untouched (alias / mutation analysis of every builder function)."),
    "C14": ("", "The by-name views of every element (field_map, argument_map, enum lookups) list exactly its members, as the same objects, on results and sources."),
    "C15": ("", "A schema answers its introspection the same before and after other schemas were derived from it."),
    "C16": ("", "One instrumentation object serving several requests, some of which die, records for every later request what a fresh object would."),
    "C17": ("", "A polling consumer (cancelled waits on a live source) still receives every event, in order, and the end of the stream."),
    "C12": ("", "A library exception while serialising a valid schema is a violation; descriptions with CR / CRLF."),
}
for _k, (_tech, _t) in _ROUND11.items():
    if _tech:
        CLAIMS[_k]["technique"] = CLAIMS[_k]["technique"].rstrip() + " + " + _tech
    CLAIMS[_k]["text"] = CLAIMS[_k]["text"].rstrip() + " " + _t

# round 12 and the frame obligations added with it
_ROUND12 = {
    "C01": ("", "Constness is probed at every member of a repetition (non-first arguments, directives, list and object members) of every [Const] site."),
    "C02": ("", "The Lexer's string / block-string contracts are also evaluated at run time on every quote-containing text of the lexer corpus."),
    "C03": ("frame obligations: no function of the printer modifies the tree it prints", "Printing leaves the tree untouched (57 functions)."),
    "C04": ("frame obligations: no function of the execution package, collect_fields, the coercion utilities or the entry points writes into the schema, the document or the variables",
            "Executing a request leaves schema, document and variables untouched (59 functions), so a result cannot depend on earlier requests through them."),
    "C15": ("frame obligations on the introspection module and the default-value renderer", "Answering an introspection request modifies nothing it is given."),
    "C19": ("frame obligations on the depth rule", "Measuring the depth modifies nothing it is given."),
    "C20": ("frame obligations on the differ", "Diffing modifies neither schema."),
}
for _k, (_tech, _t) in _ROUND12.items():
    if _tech:
        CLAIMS[_k]["technique"] = CLAIMS[_k]["technique"].rstrip() + " + " + _tech
    CLAIMS[_k]["text"] = CLAIMS[_k]["text"].rstrip() + " " + _t
