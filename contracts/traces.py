"""Trace contracts (ghost event words over every path) for the hook / strategy / refusal / protocol functions.

Each entry of TRACE_CONTRACTS: dict(
    id        : label used in obligation ids,
    target    : "module:Class.func" (real function, source re-read on every run),   inner: optional local def to analyse,
    props     : properties the contract carries,
    config    : tracecheck.Config (events, nothrow, raises, callbacks = effect contracts of callback-taking callees),
    clauses   : [(clause id, text, predicate(path))],
    assumes   : assumed contracts this verification leans on (printed in evidence),
)
"""
import re

from vf import tracecheck as T
from vf.tracecheck import Config, ExcV, TupleV, Unknown, count, exc_is, index, properly_nested


def _classes_of(engine, av):
    """real exception classes named by an abstract value (Name / tuple of names), else None"""
    import ast
    items = av.items if isinstance(av, TupleV) else [av]
    out = []
    for i in items:
        if not isinstance(i, Unknown):
            return None
        try:
            c = engine.resolve_class(ast.parse(i.text, mode="eval").body)
        except SyntaxError:
            c = None
        if c is None:
            return None
        out.append(c)
    return out


def map_value_contract(engine, call, st, text, args, kwargs):
    """ASSUMED effect contract of Runtime.map_value(value, then, else_=(cls, handler)) for every runtime:
    exactly one of: (a) the value becomes available and `then` is invoked once with it; if `then` raises an instance of cls,
    handler is invoked once with it, otherwise the exception is the result's failure; (b) the value fails with E: if E is an
    instance of cls the handler is invoked once, otherwise E is the result's failure.  Nothing else is invoked.
    (BlockingRuntime.map_value is itself checked against this contract; the other runtimes by the C08 stand-in.)"""
    then = args[1] if len(args) > 1 else kwargs.get("then")
    else_ = kwargs.get("else_") or (args[2] if len(args) > 2 else None)

    def failed(state, exc):
        if isinstance(else_, TupleV) and len(else_.items) == 2:
            classes = _classes_of(engine, else_.items[0])
            verdict = None
            if classes and exc.classes:
                if all(any(issubclass(r, c) for c in classes) for r in exc.classes):
                    verdict = True
                elif not any(issubclass(r, c) or issubclass(c, r) for r in exc.classes for c in classes):
                    verdict = False
            res = []
            if verdict is not False:
                b = state.fork("map_value:else") if verdict is None else state
                b.emit("cb:else")
                narrowed = ExcV(tuple(classes)) if classes else exc
                for a, k, v in engine.invoke(else_.items[1], [narrowed], b, label="else"):
                    res.append((a, k, v if k == "raise" else Unknown("mapped")))
            if verdict is not True:
                res.append((state.fork("map_value:not-else") if verdict is None else state, "raise", exc))
            return res
        if else_ is not None and not (isinstance(else_, T.Const) and else_.value is None):
            raise T.Unsupported("else_ argument of map_value is not a literal (class, handler) pair")
        return [(state, "raise", exc)]

    out = []
    ok = st.fork("map_value:value-ok")
    ok.emit("cb:then")
    for a, k, v in engine.invoke(then, [Unknown("value", null=None)], ok, label="then"):
        if k == "val":
            out.append((a, "val", Unknown("mapped")))
        else:
            out += failed(a, v)
    out += failed(st.fork("map_value:value-fails"), ExcV((), label="*"))
    return out


def skip_selection_contract(engine, call, st, text, args, kwargs):
    """_skip_selection(selection, variables) -> bool, total: both answers are followed, each with its own event, so that clauses speak about the
    answer itself and not about the spelling of the test that consumed it"""
    yes, no = st.fork("skip:yes"), st.fork("skip:no")
    yes.emit("skip?=yes")
    no.emit("skip?=no")
    return [(yes, "val", T.Const(True)), (no, "val", T.Const(False))]


def done_callback_contract(engine, call, st, text, args, kwargs):
    """ASSUMED contract of concurrent.futures.Future.add_done_callback(fn): fn is called exactly once, with the future, when it is done
    (sequentialised: here).  An exception escaping fn is logged and dropped by the Future machinery - modelled as the path's outcome so that
    contracts can forbid it."""
    st.emit("cb:done")
    out = []
    for a, k, v in engine.invoke(args[0], [Unknown("future")], st, label="done-callback"):
        out.append((a, k, v if k == "raise" else Unknown("None")))
    return out


def _chain_clauses():
    SETTLE = ("set_result", "set_exception", "cancel")

    def settles_once(p):
        if "cb:done" not in p.events:
            return None
        return p.outcome == "return" and sum(count(p.events, e) for e in SETTLE) == 1

    def then_once(p):
        if any("result-raises" in t for t in p.trail):
            return count(p.events, "then") == 0
        return count(p.events, "then") == 1

    def else_matching(p):
        if "else" not in p.events:
            return None
        return p.assumed("else_ is not None") is True and p.assumed("isinstance(err, exc_type)") is True and count(p.events, "else") == 1 and \
            any("then-raises" in t or "result-raises" in t for t in p.trail)

    def failure_without_else(p):
        failed = any("then-raises" in t or "result-raises" in t for t in p.trail)
        if not failed or "else" in p.events or "cancel" in p.events:
            return None
        return ("set_exception" in p.events) if "cb:done" in p.events else p.outcome == "raise"

    return [
        ("then-once-when-the-value-arrives", "`then` is invoked exactly once when the source value is available, not at all when it failed", then_once),
        ("else-only-for-a-matching-failure", "the else handler is invoked at most once, only for a failure that is an instance of its class", else_matching),
        ("unmatched-failure-is-the-result's-failure", "a failure the else_ pair does not cover becomes the failure of the result (raised / set on the target future)", failure_without_else),
        ("target-future-settles-exactly-once", "when the source is a future, its done-callback settles the target exactly once (result, exception or cancellation) and "
                                               "lets no exception escape (an escaping exception would leave the target pending forever)", settles_once),
    ]


def _gather_clauses():
    def one_slot_per_source_value(p):
        loops = [i for i, e in enumerate(p.events) if e == "for[source_values]{"]
        if not loops or "}!" in p.events:
            return None
        i = loops[0]
        body = p.events[i + 1:p.events.index("}", i)]
        return count(body, "append:result") == 1 and count(body, "append:pending") <= 1

    def result_in_source_order(p):
        if "set_result" not in p.events or "for[result]{" not in p.events:
            return None                          # no result set, or the abstract comprehension had no iteration
        return index(p.events, "for[result]{") < index(p.events, "set_result")

    def failure_fails_the_gather(p):
        # the callback's own future failed (d.result() raised and the handler caught it)
        if "cb:done" not in p.events or not any("result-raises" in t for t in p.trail) or not any(t.endswith(".caught") for t in p.trail):
            return None
        return "set_exception" in p.events and "set_result" not in p.events

    def empty_and_plain(p):
        if p.assumed("target_count == 0") is True:
            return p.outcome == "return" and "cb:done" not in p.events
        if p.assumed("not pending") is True:
            return p.outcome == "return" and "cb:done" not in p.events and isinstance(p.payload, Unknown)
        return None

    return [
        ("one-result-slot-per-source-value", "every source value, future or not, gets exactly one slot of the result list, in source order", one_slot_per_source_value),
        ("result-assembled-from-the-slots-in-order", "the aggregate result is assembled by walking the slots in order (results of futures, plain values at their positions)",
         result_in_source_order),
        ("first-failure-fails-the-aggregate", "a failed source future fails the aggregate future and no result is set by that callback", failure_fails_the_gather),
        ("no-futures-no-waiting", "an empty source yields an empty list and a source without futures its values, without registering callbacks", empty_and_plain),
    ]


def _implementation_clauses():
    def subtype_events(p):
        return [e for e in p.events if e.startswith("is_subtype(")]

    def field_types_covariant(p):
        sub = subtype_events(p)
        if not sub:
            return None
        return sub[0] == "is_subtype(object_field.type,field.type)"

    def missing_field_reported(p):
        if p.assumed("object_field is None") is True:
            return "error" in p.events and not subtype_events(p)
        return None

    def wrong_field_type_reported(p):
        a = p.assumed("not self.schema.is_subtype(object_field.type, field.type)")
        if a is True:
            # the report belongs to the type test itself: it comes before whatever the method examines next (whether the arguments of such a
            # field are still examined is not part of the rule: every further violation may be reported together with this one)
            sub = [i for i, e in enumerate(p.events) if e.startswith("is_subtype(")]
            if not sub:
                return None
            rest = p.events[sub[-1] + 1:]
            stop = min([rest.index(e) for e in ("for[field.arguments]{", "for[object_field.arguments]{", "}") if e in rest] or [len(rest)])
            return "error" in rest[:stop]
        return None

    def arguments_invariant(p):
        # inside the loop over the interface field's arguments no covariance test is used: the types must be equal
        if "for[field.arguments]{" not in p.events:
            return None
        i = p.events.index("for[field.arguments]{")
        j = p.events.index("}", i) if "}" in p.events[i:] else len(p.events)
        if any(e.startswith("is_subtype(") for e in p.events[i:j]):
            return False
        tests = [(t.replace(" ", ""), o) for t, o in p.facts if "object_arg.type" in t and "arg.type" in t]
        if not tests:
            return None
        t, o = tests[-1]
        if t in ("arg.type!=object_arg.type", "object_arg.type!=arg.type"):
            return ("error" in p.events[i:j]) == o
        if t in ("arg.type==object_arg.type", "object_arg.type==arg.type"):
            return ("error" in p.events[i:j]) == (not o)
        raise T.Unsupported("argument type comparison %r not recognised" % t)

    def missing_argument_reported(p):
        if p.assumed("object_arg is None") is True and "for[field.arguments]{" in p.events:
            i = p.events.index("for[field.arguments]{")
            return "error" in p.events[i:]
        return None

    def extra_required_argument_reported(p):
        if p.assumed("interface_arg is None") is True:
            req = p.assumed("arg.required")        # required = non-null WITHOUT a default value (an argument with a default is optional)
            if req is None or "for[object_field.arguments]{" not in p.events:
                return None
            i = p.events.index("for[object_field.arguments]{")
            return ("error" in p.events[i:]) == req
        return None

    return [
        ("field-types-covariant", "the implementing field's type is tested with is_subtype(object field type, interface field type) - the relation Engine A proves equal to the specification's", field_types_covariant),
        ("missing-field-reported", "an interface field the object does not define is reported", missing_field_reported),
        ("wrong-field-type-reported", "a field type that is not a valid implementation type is reported", wrong_field_type_reported),
        ("argument-types-invariant", "interface field arguments must have exactly the same type in the object (equality, not covariance); a difference is reported", arguments_invariant),
        ("missing-argument-reported", "an interface field argument the object field lacks is reported", missing_argument_reported),
        ("extra-required-argument-reported", "an additional object field argument is reported exactly when it is of a non-null type", extra_required_argument_reported),
    ]


def _error_site(call, args, kwargs):
    return "error@%d" % call.lineno


class RuleTest:
    """One rule of a `SchemaValidator.validate_*` method, of the form `if <test>: self.add_error(...)`, as two statements about every path on which the
    method examines an element (the event `scope`, e.g. the loop over the fields; None: every path):
      evaluated - the rule's test is evaluated for that element: no earlier violation of the same element hides this one (`continue`, `elif`, early return)
      reported  - an error is reported from the body of that `if` exactly when the test says the rule is broken.
    The `if` is found in the method's current source by a regular expression over its unparsed test; its error sites are the add_error calls directly inside its
    body (so the rule is broken when the test is true). A test that cannot be found
    any more is Unsupported (the method reported degraded), never a violation."""

    def __init__(self, target, scope, test_rx, kind):
        import ast, inspect, textwrap
        from vf import engine_p
        self.scope, self.rx, self.kind = scope, re.compile(test_rx), kind
        func = engine_p.resolve(target)
        tree = ast.parse(textwrap.dedent(inspect.getsource(func))).body[0]
        ast.increment_lineno(tree, func.__code__.co_firstlineno - tree.lineno)
        self.sites, self.tests = set(), set()
        for n in ast.walk(tree):
            if isinstance(n, ast.If) and self.rx.search(ast.unparse(n.test)):
                self.tests.add(ast.unparse(n.test))
                for st in n.body:
                    if isinstance(st, ast.Expr) and isinstance(st.value, ast.Call) and ast.unparse(st.value.func) == "self.add_error":
                        self.sites.add("error@%d" % st.value.lineno)
        self.target = target

    def prepare(self, paths):
        if len(self.tests) != 1 or not self.sites:
            raise T.Unsupported("rule test /%s/ of %s: %d matching `if` statements, %d error sites (expected one test reporting directly in its body)"
                                % (self.rx.pattern, self.target, len(self.tests), len(self.sites)))
        text = next(iter(self.tests))
        self.text = text

    def fact(self, p):
        for t, o in p.facts:
            if t == self.text:
                return o
        return None

    def __call__(self, p):
        if self.scope is not None and self.scope not in p.events:
            return None
        if p.outcome != "return":
            return None
        o = self.fact(p)
        if self.kind == "evaluated":
            return o is not None
        if o is None:
            return None
        return any(site in p.events for site in self.sites) == o


def _rule_clauses(target, rules):
    """rules: [(id stem, text, scope event, regex over the test)] -> two clauses per rule"""
    out = []
    for stem, text, scope, rx in rules:
        out.append(("%s-always-examined" % stem, "%s: the test is made for every element, whatever else is wrong with it" % text, RuleTest(target, scope, rx, "evaluated")))
        out.append(("%s-reported-iff-broken" % stem, "%s: reported exactly when broken" % text, RuleTest(target, scope, rx, "reported")))
    return out


def _always(event, scope, text_id, text):
    def pred(p):
        if p.outcome != "return" or (scope is not None and scope not in p.events):
            return None
        return event in p.events
    return (text_id, text, pred)


_VALIDATION = "py_gql.schema.validation:SchemaValidator."
_VALIDATION_CONFIG = dict(events=[(r"^self\.add_error$", _error_site), (r"^self\.check_valid_name$", "check-name"),
                                  (r"^self\._validate_resolver_arguments$", "check-resolver")],
                          nothrow=[r"^self\.add_error$", r"^self\.check_valid_name$", r"^self\._validate_resolver_arguments$", r"^is_(input|output)_type$",
                                   r"\.add$", r"\.values$", r"^set$"])


def _extension_member_clauses(pairs):
    """pairs: [(membership test text, set name)] - for every member an extension adds: a name that is already known (from the definition or from an
    earlier extension member) is refused with ExtensionError, a new one is recorded in the set before the next member is examined"""
    def make(test, setname):
        def dup(p):
            a = p.assumed(test)
            if a is None:
                return None
            from py_gql.exc import ExtensionError
            if a:
                return p.outcome == "raise" and exc_is(p.payload, ExtensionError)
            # new name: recorded (unless the path is cut short by an exception raised later in the same iteration)
            return True if ("add:%s" % setname) in p.events else (None if p.outcome == "raise" else False)
        return dup
    out = []
    for test, setname in pairs:
        out.append(("duplicates-among-%s-refused-and-new-names-recorded" % setname,
                    "a member whose name is already in `%s` is refused with ExtensionError; a new name is added to `%s` so that a later duplicate is seen" % (setname, setname),
                    make(test, setname)))
    return out


def _set_add_label(call, args, kwargs):
    return "add:%s" % call.func.value.id


def _extend_contract(name, pairs, inner=None):
    return dict(id="ASTTypeBuilder.%s" % name, target="py_gql.sdl.ast_type_builder:ASTTypeBuilder.%s" % name, inner=inner, props=["C11"],
                config=Config(events=[(r"^\w+_names\.add$", _set_add_label)],
                              nothrow=[r"_names\.add$", r"^ExtensionError$", r"^set$", r"^cast$", r"\.append$", r"_collect_extensions$"]),
                clauses=_extension_member_clauses(pairs), assumes=[])


FIELD_EVENTS = [(r"on_field_start$", "field+"), (r"on_field_end$", "field-"), (r"^resolver$", "resolver"),
                (r"self\.complete_value$", "complete"), (r"self\.add_error$", "add_error")]
FIELD_NOTHROW = [r"on_field_(start|end)$", r"self\.add_error$", r"^ResolveInfo$"]


def _resolver_error_or_return(p):
    from py_gql.exc import CoercionError, ResolverError
    return p.outcome == "return" or exc_is(p.payload, CoercionError, ResolverError)


FIELD_CLAUSES = [
    ("start-at-most-once", "the field start hook fires at most once per resolved field", lambda p: count(p.events, "field+") <= 1),
    ("end-at-most-once", "the field end hook fires at most once per resolved field", lambda p: count(p.events, "field-") <= 1),
    ("end-iff-started", "whenever the field was started and the call returns (value or recorded resolver / coercion error), the end hook fired exactly once",
     lambda p: (count(p.events, "field-") == 1) if (p.outcome == "return" and count(p.events, "field+") == 1) else None),
    ("no-end-without-start", "the end hook never fires for a field that was not started", lambda p: count(p.events, "field-") <= count(p.events, "field+")),
    ("start-before-resolver", "the start hook fires before the resolver is invoked",
     lambda p: None if index(p.events, "resolver") < 0 else 0 <= index(p.events, "field+") < index(p.events, "resolver")),
    ("end-after-resolver", "the end hook fires after the resolver returned or raised",
     lambda p: None if (index(p.events, "field-") < 0 or index(p.events, "resolver") < 0) else index(p.events, "resolver") < index(p.events, "field-")),
    ("resolver-at-most-once", "the resolver is invoked at most once", lambda p: count(p.events, "resolver") <= 1),
    ("started-on-every-returning-path", "a call that returns has fired the start hook", lambda p: None if p.outcome != "return" else count(p.events, "field+") == 1),
    ("one-error-per-failed-field", "a field whose failure was recorded is not completed afterwards (completion of the null would record a second error for a non-null "
                                   "field), and at most one error is recorded per call",
     lambda p: None if "add_error" not in p.events else (count(p.events, "add_error") == 1 and "complete" not in p.events[index(p.events, "add_error"):])),
]


def _stage_cfg(extra_events=(), extra_nothrow=(), callbacks=()):
    return Config(
        events=[(r"on_query_start$", "query+"), (r"on_query_end$", "query-"), (r"on_parsing_start$", "parsing+"), (r"on_parsing_end$", "parsing-"),
                (r"on_validation_start$", "validation+"), (r"on_validation_end$", "validation-"),
                (r"on_execution_start$", "execution+"), (r"on_execution_end$", "execution-")] + list(extra_events),
        nothrow=[r"\.on_(query|parsing|validation|execution)_(start|end)$", r"^Instrumentation$", r"^BlockingRuntime$", r"ensure_wrapped$"] + list(extra_nothrow),
        callbacks=callbacks)


STAGES = {"query+": "query-", "parsing+": "parsing-", "validation+": "validation-", "execution+": "execution-"}


def _result_label(call):
    kws = {k.arg: k.value for k in call.keywords}
    import ast
    parts = []
    if "data" in kws:
        parts.append("data=" + ast.unparse(kws["data"]))
    if "errors" in kws:
        parts.append("errors")
    if call.args:
        parts.append("positional")
    return "result(%s)" % ",".join(parts)


def _library_outcome(p):
    """outcomes the stage contract speaks about: a returned result, or one of the library's request errors"""
    from py_gql.exc import ExecutionError, GraphQLSyntaxError, VariablesCoercionError
    return p.outcome == "return" or exc_is(p.payload, ExecutionError, GraphQLSyntaxError, VariablesCoercionError)


def _hook_label(call, args, kwargs):
    import ast
    f = call.func
    return "hook:%s@%s(%s)" % (f.attr, ast.unparse(f.value), ",".join(ast.unparse(a) for a in call.args))


def _multi_clause(kind):
    """MultiInstrumentation.on_<stage>_<kind>: members are called in order for start hooks and in reverse for end hooks.
    Recognised iteration forms: `for i in self.instrumentations` (forward), `... [::-1]` / `reversed(...)` (reverse).
    An unrecognised form is not a violation (tracecheck.Unsupported -> degraded)."""
    def pred(p, _kind=kind):
        loops = [e for e in p.events if e.startswith("for[")]
        if not loops:
            return True
        if len(loops) != 1:
            raise T.Unsupported("more than one loop in a MultiInstrumentation hook")
        it = loops[0][4:-2].replace(" ", "")
        forward = it == "self.instrumentations"
        reverse = it in ("self.instrumentations[::-1]", "reversed(self.instrumentations)")
        if not forward and not reverse:
            raise T.Unsupported("iteration form %r not recognised" % it)
        return forward if _kind == "start" else reverse
    return pred


def _multi_same_hook(name):
    def pred(p, _name=name):
        hooks = [e for e in p.events if e.startswith("hook:")]
        loops = [e for e in p.events if e.startswith("for[")]
        if not loops:
            return not hooks
        return len(hooks) == 1 and hooks[0].startswith("hook:%s@" % _name) and p.events[0].startswith("for[") and p.events[-1] == "}"
    return pred


def _multi_contracts():
    out = []
    for stage in ("query", "parsing", "validation", "execution", "field"):
        for kind in ("start", "end"):
            name = "on_%s_%s" % (stage, kind)
            out.append(dict(
                id="MultiInstrumentation.%s" % name, target="py_gql.execution.instrumentation:MultiInstrumentation.%s" % name, props=["C16"],
                config=Config(events=[(r"^\w+\.on_\w+$", _hook_label)], nothrow=[r"^\w+\.on_\w+$"]),
                clauses=[("order", "combined instrumentations run %s hooks %s" % (kind, "in order" if kind == "start" else "in reverse order"), _multi_clause(kind)),
                         ("delegates", "each member's %s is called exactly once per iteration and nothing else" % name, _multi_same_hook(name))],
                assumes=["`for x in <tuple>` iterates in index order; `t[::-1]` / `reversed(t)` is t reversed (Python semantics)"]))
    return out


def _chained_contracts():
    """ChainedVisitor.enter / leave: members are the CURRENT `self.visitors`, entered in order and left in reverse, each once per node event; the skip signal of a member is
    not swallowed (so later members do not enter and the traversal skips the node).  What enter returns (the listed findings about edits through a chain) is not stated here."""
    SkipNode = __import__("py_gql.lang.visitor", fromlist=["SkipNode"]).SkipNode

    def order(kind):
        def pred(p):
            loops = [e for e in p.events if e.startswith("for[")]
            if not loops:
                return None
            if len(loops) != 1:
                raise T.Unsupported("more than one loop in ChainedVisitor.%s" % kind)
            it = loops[0][4:-2].replace(" ", "")
            forward = it in ("self.visitors", "iter(self.visitors)")
            reverse = it in ("self.visitors[::-1]", "reversed(self.visitors)")
            if not forward and not reverse:
                raise T.Unsupported("iteration form %r not recognised" % it)
            return forward if kind == "enter" else reverse
        return pred

    def once_per_iteration(kind):
        def pred(p):
            if not any(e.startswith("for[") for e in p.events):
                return None
            inside, k = False, 0
            for e in p.events:
                if e.startswith("for["):
                    inside, k = True, 0
                elif e in ("}", "}!"):
                    inside = False
                elif e == kind:
                    if not inside:
                        return False
                    k += 1
                    if k > 1:
                        return False
            return True
        return pred

    def skip_propagates(p):
        if not any("enter-raises" in t for t in p.trail):
            return None
        return p.outcome == "raise"

    def leave_every_member(p):
        # one abstract iteration: the member's leave is called in it unconditionally
        if "for[" not in "".join(p.events) or p.outcome != "return":
            return None
        body = [e for e in p.events if not e.startswith("for[") and e not in ("}", "}!")]
        return body == ["leave"] or body == []

    return [
        dict(id="ChainedVisitor.enter", target="py_gql.lang.visitor:ChainedVisitor.enter", props=["C18"],
             config=Config(events=[(r"^v\.enter$|^\w+\.enter$", "enter")], raises=[(r"\.enter$", [SkipNode])]),
             clauses=[("members-in-order", "chained visitors enter in the order of the chain's current `visitors`", order("enter")),
                      ("one-enter-per-member", "a member's enter is called at most once per node, inside the iteration over the members", once_per_iteration("enter")),
                      ("skip-signal-propagates", "a member raising the skip signal ends the chain's enter with that signal (later members do not enter, the node is skipped)", skip_propagates)],
             assumes=["`for x in <tuple>` iterates in index order"]),
        dict(id="ChainedVisitor.leave", target="py_gql.lang.visitor:ChainedVisitor.leave", props=["C18"],
             config=Config(events=[(r"^\w+\.leave$", "leave")], nothrow=[r"\.leave$"]),
             clauses=[("members-in-reverse", "chained visitors leave in the reverse order of the chain's current `visitors`", order("leave")),
                      ("every-member-leaves-once", "each member's leave is called exactly once per node event and nothing else happens", leave_every_member),
                      ("one-leave-per-member", "a member's leave is called at most once per node, inside the iteration", once_per_iteration("leave"))],
             assumes=["`t[::-1]` / `reversed(t)` is t reversed; leave of a member does not raise"]),
    ]


def _middleware_contracts():
    """apply_middlewares(func, middlewares): every middleware wraps what was built before it exactly once - `tail = partial(mw, tail)` with mw the loop's member - in the
    order of the sequence (the last middleware is outermost: the documented nesting), and nothing else is applied; a member that is not callable is refused."""
    import ast

    def partial_label(call, args, kwargs):
        return "wrap(%s)" % ",".join(ast.unparse(a) for a in call.args)

    def body(p):
        ev = list(p.events)
        loops = [i for i, e in enumerate(ev) if e.startswith("for[")]
        if not loops:
            return None, None
        i = loops[0]
        j = next((k for k in range(i + 1, len(ev)) if ev[k] in ("}", "}!")), len(ev))
        return ev[i], ev[i + 1:j]

    def wraps_once(p):
        head, b = body(p)
        if head is None or p.outcome != "return":
            return None
        if b == []:
            return True
        if len(b) != 1 or not b[0].startswith("wrap("):
            return False
        inner = b[0][5:-1].split(",")
        # ... and what is returned after an iteration is that wrapping (not the chain of before it)
        return len(inner) == 2 and inner[1] == "tail" and inner[0] not in ("tail", "func") and "partial(" in (getattr(p.payload, "text", None) or "")

    def in_order(p):
        head, _b = body(p)
        if head is None:
            return None
        it = head[4:-2].replace(" ", "")
        if it in ("middlewares", "iter(middlewares)", "list(middlewares)", "tuple(middlewares)"):
            return True
        if it in ("middlewares[::-1]", "reversed(middlewares)"):
            return False
        raise T.Unsupported("iteration form %r not recognised" % it)

    def starts_from_func(p):
        # without any middleware the result is the wrapped function itself
        if p.outcome != "return" or any(e.startswith("wrap(") for e in p.events):
            return None
        return (getattr(p.payload, "text", None) or "") == "func"

    return [dict(id="apply_middlewares", target="py_gql._utils:apply_middlewares", props=["C16"],
                 config=Config(events=[(r"^functools\.partial$|^partial$", partial_label)], nothrow=[r"^functools\.partial$|^partial$", r"^callable$"]),
                 clauses=[("each-middleware-wraps-once", "in every iteration the member wraps the chain built so far exactly once (tail = partial(member, tail)) and nothing else is applied", wraps_once),
                          ("sequence-order", "middlewares are applied in the order of the sequence, so the last one is outermost (documented nesting)", in_order),
                          ("chain-starts-at-the-resolver", "with no middleware (applied) the result is the wrapped function itself", starts_from_func)],
                 assumes=["functools.partial(f, g)(*a, **k) == f(g, *a, **k); each middleware calls `next` as documented (checked at run time by the stand-in)"])]


def _merge_contracts():
    """collect_fields._merge(groups, into=...): response keys keep the place of their FIRST occurrence (the order of `into` is the order in which top-level mutation fields run
    and in which every result lists its keys), nothing collected earlier is lost, every collected group is appended once, in order."""
    def body(p):
        ev = list(p.events)
        i = next((k for k, e in enumerate(ev) if e.startswith("for[")), None)
        if i is None:
            return None
        j = next((k for k in range(i + 1, len(ev)) if ev[k] in ("}", "}!")), len(ev))
        return ev[i + 1:j]

    def never_removes(p):
        return not any(e == "remove" for e in p.events)

    def fresh_list_only_for_new_keys(p):
        b = body(p)
        if not b or "store:fresh" not in b:
            return None
        return p.assumed("key not in into") is True or p.assumed("key in into") is False

    def appended_once(p):
        b = body(p)
        if b is None or p.outcome != "return":
            return None
        if b == []:
            return True
        return count(b, "extend") + count(b, "store:concat") == 1

    import ast

    def store_label(m, av=None):
        return "store:fresh" if isinstance(av, T.Const) or (getattr(av, "text", "") or "").replace(" ", "") in ("[]", "list()") else "store:concat"

    return [dict(id="collect_fields._merge", target="py_gql.utilities.collect_fields:_merge", props=["C04", "C09"],
                 config=Config(events=[(r"^into\.(pop|popitem|clear|move_to_end)$", "remove"), (r"^into\[key\]\.extend$|^into\.setdefault\(key, \[\]\)\.extend$|^bucket\.extend$", "extend")],
                               stmt_events=[(r"^into\[key\]$", store_label)],
                               nothrow=[r"\.extend$", r"\.items$", r"\.setdefault$", r"\.get$"]),
                 clauses=[("keys-keep-their-first-position", "no key is ever removed from (and so re-inserted at the end of) the grouping being merged into", never_removes),
                          ("nothing-collected-earlier-is-lost", "a fresh empty list is stored under a key only when the key is not there yet", fresh_list_only_for_new_keys),
                          ("every-group-appended-once", "each collected group is appended to its key exactly once per iteration", appended_once)],
                 assumes=["dict preserves insertion order and assignment to an existing key keeps its position (Python 3.7+ / OrderedDict)"])]


def _stage_word(p):
    return [e for e in p.events if e in STAGES or e in STAGES.values()]


def _balanced_on_return(p):
    if not _library_outcome(p):
        return True
    ok, stack = properly_nested(_stage_word(p), STAGES)
    return ok and (p.outcome != "return" or not stack)


def _results(p):
    return [e for e in p.events if e.startswith("result(")]


def _visit_clauses():
    def count(events, label):                      # traverse / leave events carry the origin of their argument
        return sum(1 for e in events if e == label or e.startswith(label + ":"))

    def index(events, label):
        for i, e in enumerate(events):
            if e == label or e.startswith(label + ":"):
                return i
        return -1

    def enter_first(p):
        return count(p.events, "enter") == 1 and p.events[0] == "enter"

    def skip(p):
        # enter raised SkipNode and the wrapper caught it: nothing else happens and the node it was given is returned
        if p.outcome == "return" and any("enter-raises" in t for t in p.trail):
            return p.events == ("enter",) and isinstance(p.payload, Unknown) and p.payload.text == "node"
        return None

    def nullness(v):
        """True: the returned value is None; False: it is a node; None: unknown"""
        if isinstance(v, T.Const):
            return v.value is None
        if isinstance(v, Unknown):
            return v.null
        return False

    def deleted(p):
        # enter returned None (the path neither skips nor traverses): nothing else happens and None is returned
        if p.outcome == "return" and count(p.events, "traverse") == 0 and not any("enter-raises" in t for t in p.trail):
            return p.events == ("enter",) and nullness(p.payload) is True
        return None

    def leave_rule(p):
        # leave exactly once, after the traversal, iff the node survived enter and the traversal (= a node is returned)
        if p.outcome != "return":
            return count(p.events, "leave") <= 1
        if count(p.events, "traverse") == 0:
            return count(p.events, "leave") == 0
        n = nullness(p.payload)
        if n is True:
            return count(p.events, "leave") == 0
        if n is False:
            return count(p.events, "leave") == 1 and index(p.events, "traverse") < index(p.events, "leave")
        return None

    def origin(ev):
        return ev.split(":", 1)[1] if ":" in ev else None

    def flows(p):
        # data flow: the traversal runs on what enter returned, leave is called on what the traversal returned, and that is the result
        tr = [e for e in p.events if e.startswith("traverse")]
        lv = [e for e in p.events if e.startswith("leave")]
        if not tr:
            return None
        ok = origin(tr[0]) == "inst.enter(...)"
        if lv:
            ok = ok and origin(lv[0]) == "method(...)"
        if p.outcome == "return":
            ok = ok and ((isinstance(p.payload, Unknown) and p.payload.text == "method(...)") or (isinstance(p.payload, T.Const) and p.payload.value is None))
        return ok

    return [
        ("value-flows-enter-traverse-leave-result", "children are traversed on the node enter returned; leave sees, and the wrapper returns, what the traversal returned", flows),
        ("enter-once-first", "enter is called exactly once, before anything else", enter_first),
        ("skip-suppresses-children-and-leave", "SkipNode from enter: no traversal, no leave, the original node is returned", skip),
        ("none-deletes-without-traversal", "enter returning None: no traversal, no leave, None is returned", deleted),
        ("traverse-at-most-once", "children are traversed at most once", lambda p: count(p.events, "traverse") <= 1),
        ("leave-iff-node-survives", "leave is called exactly once after the traversal iff the node survived enter and the traversal", leave_rule),
    ]


def _serial_clauses():
    def front(p):
        pops = [e for e in p.events if e.startswith("pop(")]
        return all(e == "pop(0)" for e in pops) and len(pops) <= 1

    def next_only_in_then(p):
        if "rec:_next" not in p.events:
            return True
        i = index(p.events, "rec:_next")
        return "cb:then" in p.events[:i] and "resolve" in p.events[:i] and index(p.events, "resolve") < index(p.events, "cb:then")

    def store_before_next(p):
        if "rec:_next" not in p.events:
            return True
        return "store" in p.events and index(p.events, "store") < index(p.events, "rec:_next")

    return [
        ("takes-fields-from-the-front", "the next top-level field is taken from the front of the remaining fields (document order)", front),
        ("one-field-per-step", "each step resolves at most one top-level field", lambda p: count(p.events, "resolve") <= 1),
        ("next-field-only-after-previous-completed", "the continuation that resolves the next field runs only as the `then` callback of the previous field's completed value",
         next_only_in_then),
        ("result-stored-before-continuing", "the previous field's value is stored under its response key before the next field is started", store_before_next),
        ("chain-always-continues", "whenever a top-level field's value becomes available (null after a resolver error included) it is stored and the chain continues with the remaining fields",
         lambda p: None if "cb:then" not in p.events or p.outcome != "return" else ("store" in p.events and "rec:_next" in p.events)),
        ("unexpected-failures-surface", "an exception raised while a field is resolved (anything but the empty-list signal of the field queue) leaves the call as an exception: "
                                        "the chain never ends quietly with the fields collected so far",
         lambda p: None if not [t for t in p.trail if t.endswith("-raises") and "pop" not in t] else p.outcome == "raise"),
    ]


def _pop_label(call, args, kwargs):
    import ast
    return "pop(%s)" % ",".join(ast.unparse(a) for a in call.args)


def _strategy_clauses():
    def mutation_serial(p):
        if p.assumed("operation.operation == 'mutation'") is True and p.outcome == "return":
            return count(p.events, "serial") == 1 and count(p.events, "parallel") == 0
        return None

    def query_parallel(p):
        if p.assumed("operation.operation == 'query'") is True and p.outcome == "return":
            return count(p.events, "serial") == 0 and count(p.events, "parallel") == 1
        return None

    def others_refused(p):
        if p.assumed("operation.operation == 'query'") is False and p.assumed("operation.operation == 'mutation'") is False:
            return p.outcome == "raise" and count(p.events, "serial") + count(p.events, "parallel") == 0
        return None

    def start_only_when_accepted(p):
        from py_gql.exc import ExecutionError, VariablesCoercionError
        if p.outcome == "raise" and exc_is(p.payload, ExecutionError, VariablesCoercionError, RuntimeError) and not any("map_value" in t for t in p.trail):
            return count(p.events, "execution+") == 0
        return None

    def paired(p):
        if p.outcome != "return":
            return count(p.events, "execution-") <= count(p.events, "execution+") <= 1
        if "cb:then" in p.events:
            return count(p.events, "execution+") == 1 and count(p.events, "execution-") == 1 and index(p.events, "execution+") < index(p.events, "execution-")
        return count(p.events, "execution+") <= 1

    def start_before_fields(p):
        i = max(index(p.events, "serial"), index(p.events, "parallel"))
        return i < 0 or 0 <= index(p.events, "execution+") < i

    def end_after_fields(p):
        # the execution stage ends in the continuation of the root selection's value (when it is available), never before the runtime was handed that value
        if "execution-" not in p.events or p.outcome != "return":
            return None
        return "cb:then" in p.events and index(p.events, "cb:then") < index(p.events, "execution-")

    return [
        ("mutation-runs-serially", "a mutation operation is executed with execute_fields_serially, exactly once", mutation_serial),
        ("query-runs-execute-fields", "a query operation is executed with execute_fields, exactly once", query_parallel),
        ("other-operations-refused", "subscription / unknown operation types are refused before any field is executed", others_refused),
        ("execution-stage-starts-only-for-accepted-requests", "on_execution_start does not fire on a path that rejects the request (operation selection, variable coercion, unsupported operation)",
         start_only_when_accepted),
        ("execution-stage-paired", "on_execution_start / on_execution_end fire at most once, start first, and the end hook fires when the field results are available", paired),
        ("execution-start-before-fields", "on_execution_start fires before the first field is executed", start_before_fields),
        ("execution-end-when-the-fields-are-done", "on_execution_end fires in the continuation of the root selection's (possibly deferred) value, not when the fields "
                                                   "have merely been started", end_after_fields),
    ]


def _pgq_clauses():
    def once(p):
        return all(count(p.events, e) <= 1 for e in list(STAGES) + list(STAGES.values()))

    def query_outermost(p):
        w = _stage_word(p)
        if not w:
            return True
        return w[0] == "query+" and (p.outcome != "return" or w[-1] == "query-")

    def result_data(p):
        rs = _results(p)
        if p.outcome != "return" or not rs:
            return True
        if len(rs) != 1:
            return False
        reached_execute = "execute" in p.events
        if not reached_execute:
            return "data=" not in rs[0]           # syntax / validation failure: data omitted
        return rs[0] == "result(data=None,errors)"   # request error during execute(): data null

    def stages_in_order(p):
        order = ["validate" if e.startswith("validate(") else e for e in p.events if e in ("parse", "execute") or e.startswith("validate(")]
        return order == sorted(order, key=["parse", "validate", "execute"].index)

    def stage_around(p):
        ok = True
        evs = tuple("validate" if x.startswith("validate(") else x for x in p.events)
        for call, s, e in (("parse", "parsing+", "parsing-"), ("validate", "validation+", "validation-")):
            if call in evs:
                ok = ok and 0 <= index(evs, s) < index(evs, call) and (index(evs, e) > index(evs, call) or not _library_outcome(p))
        return ok

    def validates_every_request(p):
        # a request that reaches execution, or is answered with validation errors, has been validated by THIS call with the request's validators
        if "execute" in p.events or (p.outcome == "return" and "parse" in p.events and _results(p) and "execute" not in p.events and "validation+" in p.events):
            v = [e for e in p.events if e.startswith("validate")]
            return len(v) == 1 and __import__("re").search(r"[(,]validators=validators[,)]", v[0]) is not None and ("execute" not in p.events or p.events.index(v[0]) < p.events.index("execute"))
        return None

    return [
        ("validated-by-this-request's-validators", "the document is validated exactly once per request, with the validators of that request, before anything is executed "
                                                   "(no verdict is reused from another request)", validates_every_request),
        ("stage-hooks-at-most-once", "every stage hook fires at most once per request", once),
        ("stage-hooks-paired-and-nested", "on every path that returns a result, stage hooks are properly nested start/end pairs and no started stage is left open", _balanced_on_return),
        ("query-stage-outermost", "the query stage starts first and, when a result is returned, ends last", query_outermost),
        ("stage-brackets-its-work", "the parsing / validation hooks bracket the parse / validate_ast call, the end hook firing even when the stage reports errors", stage_around),
        ("stages-in-order", "parse, validate, execute happen in this order", stages_in_order),
        ("data-omitted-or-null", "a result built before execution (syntax / validation failure) carries no data entry; a request error raised by execute() yields data = None", result_data),
    ]


def _subscribe_clauses():
    def refusal_before_stream(p):
        if p.outcome == "raise" and exc_is(p.payload, RuntimeError) and not any("raises" in t for t in p.trail):
            return "create_stream" not in p.events and "map_stream" not in p.events
        return None

    def map_after_create(p):
        return "map_stream" not in p.events or 0 <= index(p.events, "create_stream") < index(p.events, "map_stream")

    def non_subscription_refused(p):
        if p.assumed("operation.operation != 'subscription'") is True:
            return p.outcome == "raise" and "create_stream" not in p.events
        return None

    def runtime_refused(p):
        if p.assumed("not isinstance(runtime, SubscriptionRuntime)") is True:
            return p.outcome == "raise" and "create_stream" not in p.events
        return None

    def paired(p):
        return count(p.events, "execution-") <= count(p.events, "execution+") <= 1 and \
            (p.outcome != "return" or "cb:then" not in p.events or count(p.events, "execution-") == 1)

    def started_stage_is_ended(p):
        # whatever happens once on_execution_start has fired - the operation is refused, the subscription resolver fails, the stream is set up -
        # on_execution_end fires as well (an exception that is not even an Exception - the abstract `*` on the not-else branch - is left out)
        if "execution+" not in p.events:
            return None
        if p.outcome == "raise" and any(t.endswith("map_value:not-else") for t in p.trail):
            return None
        return count(p.events, "execution-") == 1

    return [
        ("a-started-execution-stage-is-ended", "once on_execution_start has fired, on_execution_end fires too: also when the operation is refused or the subscription "
                                               "resolver fails", started_stage_is_ended),
        ("refusals-before-the-source-stream-exists", "RuntimeError refusals are raised before the source stream is created or mapped", refusal_before_stream),
        ("non-subscription-operation-refused", "an operation that is not a subscription is refused without creating a stream", non_subscription_refused),
        ("runtime-without-streams-refused", "a runtime without stream support is refused without creating a stream", runtime_refused),
        ("response-stream-maps-the-source-stream", "map_stream is applied only to a created source stream", map_after_create),
        ("execution-stage-paired", "execution hooks fire at most once, start before end, end once the stream is set up", paired),
    ]


def _source_stream_clauses():
    def refusals(p):
        from py_gql.exc import ExecutionError
        if p.outcome == "raise" and exc_is(p.payload, ExecutionError, RuntimeError) and not any("raises" in t for t in p.trail):
            return "subscription_resolver" not in p.events
        return None

    def several_fields(p):
        if p.assumed("len(fields) != 1") is True:
            from py_gql.exc import ExecutionError
            return p.outcome == "raise" and exc_is(p.payload, ExecutionError) and "subscription_resolver" not in p.events
        return None

    def no_resolver(p):
        if p.assumed("field_def.subscription_resolver is None") is True:
            return p.outcome == "raise" and "subscription_resolver" not in p.events
        return None

    return [
        ("refusals-before-the-subscription-resolver-runs", "explicit refusals are raised before the subscription resolver (the source of events) is invoked", refusals),
        ("several-root-fields-refused", "a selection that does not collect to exactly one root field is refused with ExecutionError", several_fields),
        ("missing-subscription-resolver-refused", "a field without a subscription resolver is refused", no_resolver),
        ("resolver-once", "the subscription resolver is invoked at most once, exactly once when a stream is returned",
         lambda p: count(p.events, "subscription_resolver") <= 1 and (p.outcome != "return" or count(p.events, "subscription_resolver") == 1)),
    ]


def _event_clauses():
    def cleared_first(p):
        if "execute_fields" in p.events:
            return 0 <= index(p.events, "clear_errors") < index(p.events, "execute_fields")
        return None

    def result_from_this_event(p):
        rs = _results(p)
        return all(r == "result(data=data,errors)" for r in rs) and len(rs) <= 1

    return [
        ("errors-cleared-before-each-event", "the shared executor's error list is cleared before the event's selection is executed", cleared_first),
        ("clear-once", "clear_errors is called exactly once per event", lambda p: count(p.events, "clear_errors") == 1 or p.outcome == "raise" and count(p.events, "clear_errors") <= 1),
        ("one-result-per-event", "at most one result is built per event, from the event's data and the executor's current errors", result_from_this_event),
    ]


def _response_clauses():
    KEYS = ("errors", "data", "extensions")

    def sets(p):
        return [e[4:] for e in p.events if e.startswith("set:")]

    def iff(key, test):
        def pred(p):
            a = p.assumed(test)
            if a is None or p.outcome != "return":
                return None
            return (key in sets(p)) == a
        return pred

    return [
        ("only-specified-keys", "the response has no entries other than errors, data, extensions, each at most once",
         lambda p: all(k in KEYS for k in sets(p)) and len(set(sets(p))) == len(sets(p))),
        ("specified-order", "entries are added in the order errors, data, extensions", lambda p: sets(p) == sorted(sets(p), key=KEYS.index)),
        ("data-iff-set", "the data entry is present exactly when data was set (null data is kept, absent data is omitted)", iff("data", "self.data is not _UNSET")),
        ("errors-iff-any", "the errors entry is present exactly when there is at least one error", iff("errors", "self.errors")),
        ("extensions-iff-any", "the extensions entry is present exactly when an extension was added", iff("extensions", "self.extensions")),
        ("errors-serialised-by-to_dict", "every error is rendered through its to_dict()",
         lambda p: None if ("set:errors" not in p.events or "for[self.errors]{" not in p.events) else
         p.events[p.events.index("for[self.errors]{") + 1] == "to_dict" and p.events.index("for[self.errors]{") < p.events.index("set:errors")),
    ]


def _non_null_clauses():
    def error_iff_null(p):
        a = p.assumed("resolved_value is None")
        if a is None or p.outcome != "return":
            return None
        return count(p.events, "add_error") == (1 if a else 0)

    return [
        ("one-error-exactly-for-null", "a null in a non-nullable position records exactly one error, a non-null value none", error_iff_null),
        ("value-passes-through", "the value is returned unchanged (null is not propagated, as the property states)",
         lambda p: None if p.outcome != "return" else isinstance(p.payload, Unknown) and p.payload.text == "resolved_value"),
        ("error-carries-nodes-and-path", "the recorded error is a resolver error built with the field nodes and the response path",
         lambda p: None if "add_error" not in p.events else "error(nodes,path)" in p.events),
    ]


def _complete_value_clauses():
    NN = "isinstance(field_type, NonNullType)"

    def non_null_first(p):
        if p.assumed(NN) is True:
            return p.events == ("complete_non_nullable",) and (p.outcome != "return" or (isinstance(p.payload, Unknown) and p.payload.text.startswith("self.complete_non_nullable_value")))
        return None

    def null_is_null(p):
        if p.assumed(NN) is False and p.assumed("resolved_value is None") is True:
            return p.events == () and p.outcome == "return" and isinstance(p.payload, T.Const) and p.payload.value is None
        return None

    def explicit_raises(p):
        if p.outcome != "raise" or any("raises" in t for t in p.trail):
            return None
        return exc_is(p.payload, RuntimeError, TypeError)

    def leaf_once(p):
        if p.assumed("isinstance(field_type, ScalarType)") is True and p.outcome == "return":
            return p.events == ("serialize",)
        return None

    def enum_once(p):
        if p.assumed("isinstance(field_type, EnumType)") is True and p.outcome == "return":
            return p.events == ("get_name",)
        return None

    def object_once(p):
        if p.assumed("isinstance(field_type, GraphQLCompositeType)") is True and p.outcome == "return":
            return count(p.events, "execute_fields") == 1 and count(p.events, "collect_fields") == 1 and \
                index(p.events, "collect_fields") < index(p.events, "execute_fields") and \
                (p.assumed("isinstance(field_type, GraphQLAbstractType)") is not True or
                 (count(p.events, "resolve_type") == 1 and index(p.events, "resolve_type") < index(p.events, "collect_fields")))
        return None

    def list_delegates(p):
        if p.assumed("isinstance(field_type, ListType)") is True and p.outcome == "return":
            return p.events == ("is_iterable", "complete_list")
        return None

    def serialisation_failures(p):
        # a value the leaf type cannot represent fails the request with RuntimeError (the documented unexpected failure), nothing is swallowed
        if any(t.endswith(".caught") for t in p.trail):
            return p.outcome == "raise" and exc_is(p.payload, RuntimeError)
        return None

    return [
        ("non-null-handled-before-null", "a non-null wrapper is delegated to complete_non_nullable_value before anything else (so a null inside it is reported)", non_null_first),
        ("null-completes-to-null", "a null value of a nullable type completes to null without resolving, serialising or executing anything", null_is_null),
        ("list-delegates", "a list type checks iterability and delegates to complete_list_value with the item type", list_delegates),
        ("scalar-serialised-once", "a scalar value is serialised exactly once and nothing else happens", leaf_once),
        ("enum-named-once", "an enum value is mapped to its name exactly once and nothing else happens", enum_once),
        ("object-executes-its-selection-once", "a composite value resolves its runtime type (if abstract), collects the sub-selections of all nodes and executes them exactly once",
         object_once),
        ("only-runtime-errors-raised-here", "complete_value itself raises only RuntimeError / TypeError (never the library's resolver error)", explicit_raises),
    ]


def _exec_fields_clauses(blocking):
    def per_iteration(p):
        if not any(e.startswith("for[") for e in p.events) or "}!" in p.events:
            return None                      # no iteration, or the iteration was cut short by an exception
        body = p.events[p.events.index([e for e in p.events if e.startswith("for[")][0]) + 1:]
        body = body[:body.index("}")] if "}" in body else body
        if blocking:
            return tuple(body) == ("resolve", "store")
        return tuple(body) == ("resolve", "append:keys", "append:pending")

    def pairs_keys_with_values(p):
        if blocking or p.outcome != "return":
            return None
        return "gather" in p.events and "cb:then" in p.events and "zip(keys,done)" in p.events and index(p.events, "gather") < index(p.events, "cb:then")

    out = [("one-resolution-per-field-in-order", "each grouped field is resolved exactly once per iteration and its value recorded under its key, in iteration order", per_iteration)]
    if not blocking:
        out.append(("result-pairs-keys-with-gathered-values", "the result is the ordered pairing of the recorded keys with the gathered values, built once they are all available",
                    pairs_keys_with_values))
    return out


def _default_value_clauses():
    STR = "isinstance(dv, str) and isinstance(type_, ScalarType)"

    def none_iff_no_default(p):
        a = p.assumed("not input_value.has_default_value")
        if a is None or p.outcome != "return":
            return None
        is_none = isinstance(p.payload, T.Const) and p.payload.value is None
        return is_none == a and (not a or p.events == ())

    def through_the_printer(p):
        # the reported text is GraphQL syntax: the declared default turned into a value node of the declared type and printed
        if p.assumed("not input_value.has_default_value") is not False or p.outcome != "return":
            return None
        return p.events == ("ast_node_from_value(dv,input_value.type)", "print_ast") and isinstance(p.payload, Unknown) and p.payload.text.startswith("print_ast")

    return [
        ("null-exactly-without-default", "defaultValue is null exactly when the input value declares no default", none_iff_no_default),
        ("rendered-by-the-printer", "a declared default is reported as the printed value node of the declared type (GraphQL syntax, escaped)", through_the_printer),
    ]


def _collect_fields_clauses():
    CONTRIB = ("keep", "merge", "mark")

    def answers(p):
        return [e for e in p.events if e.startswith("skip?=")]

    def only_unskipped(p):
        # a selection excluded by @skip / @include contributes nothing: no field kept, nothing merged, and - what a later spread of the same fragment
        # in this selection set depends on - the fragment is not marked as visited
        if not any(e in CONTRIB or e.startswith("rec(") for e in p.events):
            return None
        first = min(i for i, e in enumerate(p.events) if e in CONTRIB or e.startswith("rec("))
        before = [e for e in p.events[:first] if e.startswith("skip?=")]
        return before == ["skip?=no"] and "skip?=yes" not in p.events

    def tested_once(p):
        if p.events.count("for[selections]{") != 1:
            return None
        inside = [e for e in p.events if e not in ("for[selections]{", "}", "}!")]
        return None if not inside else len(answers(p)) == 1

    def merged_once(p):
        rec = [e for e in p.events if e.startswith("rec(")]
        if not rec or p.outcome != "return":
            return None
        return len(rec) == 1 and p.events.count("merge") == 1 and p.events.index("merge") > p.events.index(rec[0]) and "keep" not in p.events

    def shared_visited(p):
        rec = [e for e in p.events if e.startswith("rec(")]
        return None if not rec else all(e == "rec(_seen_fragments)" for e in rec)

    def field_kept_once(p):
        if "keep" not in p.events:
            return None
        return p.events.count("keep") == 1 and not any(e.startswith("rec(") or e in ("merge", "mark") for e in p.events)

    return [
        ("excluded-selections-contribute-nothing", "a selection switched off by @skip / @include keeps no field, merges nothing and does not mark its fragment as visited; "
                                                   "whatever a selection contributes, it contributes after its directives said 'included'", only_unskipped),
        ("directives-tested-once", "every selection's @skip / @include is evaluated exactly once", tested_once),
        ("fragment-collected-and-merged-once", "an included fragment's selection set is collected by one recursive call whose result is merged once", merged_once),
        ("visited-set-is-shared", "recursive calls work on the caller's set of visited fragments", shared_visited),
        ("field-kept-once", "an included field is appended once to its response-name group, and nothing else happens for it", field_kept_once),
    ]


def _max_depth_clauses():
    def no_empty_max(p):
        m = [e for e in p.events if e.startswith("max(")]
        return None if not m else all(e == "max(default)" for e in m)

    def reports_iff_deeper(p):
        facts = [(t, o) for t, o in p.facts if "depth" in t and "max_depth" in t]
        if not facts or p.outcome != "return":
            return None
        t, o = facts[-1]
        norm = t.replace(" ", "")
        if norm in ("depth>self.max_depth", "self.max_depth<depth"):
            return ("report" in p.events) == o
        if norm in ("depth<=self.max_depth", "self.max_depth>=depth"):
            return ("report" in p.events) == (not o)
        if norm in ("depth>=self.max_depth", "self.max_depth<=depth", "depth<self.max_depth", "self.max_depth>depth"):
            return False            # the limit is inclusive: a depth equal to the limit is allowed
        raise T.Unsupported("depth comparison %r not recognised" % t)

    def error_names_the_operation(p):
        r = [e for e in p.events if e.startswith("error(")]
        return None if not r else all(e == "error(nodes=[op])" for e in r)

    def filter_respected(p):
        f = [o for t, o in p.facts if t.replace(" ", "").startswith("self.operation_nameand")]
        if not f or f[-1] is not True:
            return None
        inside = p.events[p.events.index([e for e in p.events if e.startswith("for[")][0]) + 1:] if any(e.startswith("for[") for e in p.events) else ()
        return not any(e in ("collect", "report") or e.startswith("max(") for e in inside)

    def guard_is_the_documented_one(p):
        """the skip test of the operation_name filter is equivalent to: a filter is set and the operation is not the one it names"""
        import ast as _ast
        import itertools as _it
        tests = [t for t, _o in p.facts if "operation_name" in t]
        if not tests:
            return None
        tree = _ast.parse(tests[0], mode="eval").body

        def ev(n, env):
            if isinstance(n, _ast.BoolOp):
                vals = [ev(v, env) for v in n.values]
                return all(vals) if isinstance(n.op, _ast.And) else any(vals)
            if isinstance(n, _ast.UnaryOp) and isinstance(n.op, _ast.Not):
                return not ev(n.operand, env)
            text = _ast.unparse(n).replace(" ", "")
            table = {"self.operation_name": env["F"], "op.name": env["N"], "op.name.value==self.operation_name": env["N"] and env["E"],
                     "self.operation_name==op.name.value": env["N"] and env["E"], "op.name.value!=self.operation_name": not (env["N"] and env["E"]) if env["N"] else True,
                     "self.operation_name!=op.name.value": not (env["N"] and env["E"]) if env["N"] else True,
                     "op.nameisNone": not env["N"], "op.nameisnotNone": env["N"], "self.operation_nameisNone": not env["F"], "self.operation_nameisnotNone": env["F"]}
            if text not in table:
                raise T.Unsupported("atom %r of the operation_name guard not recognised" % text)
            return table[text]
        for F, N, E in _it.product((False, True), repeat=3):
            # Python evaluates `op.name.value` only when op.name is truthy in every accepted form; an anonymous operation has no name to compare
            want = F and not (N and E)
            if bool(ev(tree, {"F": F, "N": N, "E": E})) != want:
                return False
        return True

    return [
        ("operation-name-guard-is-the-documented-one", "an operation is skipped exactly when a filter is set and the operation is not the named one "
                                                       "(an anonymous operation never matches a filter)", guard_is_the_documented_one),
        ("flat-operations-have-depth-zero", "the maximum over the selected paths has a default, so an operation without nested fields does not raise", no_empty_max),
        ("reports-exactly-the-deeper-operations", "an operation is reported exactly when its depth exceeds the (inclusive) limit", reports_iff_deeper),
        ("error-names-the-operation", "each reported error carries the operation node", error_names_the_operation),
        ("operation-name-filter", "with operation_name set, other operations are neither measured nor reported", filter_respected),
    ]


def _collect_definitions_clauses():
    def dup(test, store):
        def pred(p):
            a = p.assumed(test)
            if a is None:
                return None
            from py_gql.exc import SDLError
            if a:
                return p.outcome == "raise" and exc_is(p.payload, SDLError) and store not in p.events
            return True if store in p.events or p.outcome == "raise" else None
        return pred

    def only_sdl(p):
        from py_gql.exc import SDLError
        if p.outcome != "raise" or any("raises" in t for t in p.trail):
            return None
        return exc_is(p.payload, SDLError)

    return [
        ("duplicate-type-rejected", "a second definition of a type name is rejected with an SDL error instead of replacing the first", dup("name in types", "store:types")),
        ("duplicate-directive-rejected", "a second definition of a directive name is rejected with an SDL error", dup("name in directives", "store:directives")),
        ("second-schema-definition-rejected", "a second schema definition is rejected with an SDL error",
         lambda p: None if p.assumed("schema_definition is not None") is not True else (p.outcome == "raise")),
        ("only-sdl-errors-raised-here", "the collector itself raises only SDL errors", only_sdl),
    ]


def _non_null_completion_clauses():
    def handles(p):
        return [e for e in p.events if e.startswith("handle:")]

    def completed_value_is_checked(p):
        if p.outcome != "return":
            return None
        h = handles(p)
        return count(p.events, "complete") == 1 and len(h) == 1 and index(p.events, "complete") < p.events.index(h[0]) and \
            h[0] in ("handle:self.complete_value(...)", "handle:value")

    return [
        ("null-check-applies-to-the-completed-value", "the inner type's completion runs exactly once and the non-null check is applied, once, to the value it completed to "
                                                     "(a value that completes to null - e.g. a scalar serialising to null - is reported)", completed_value_is_checked),
    ]


def _handle_label(call, args, kwargs):
    v = args[2] if len(args) > 2 else None
    return "handle:%s" % (v.text if isinstance(v, Unknown) else ("None" if isinstance(v, T.Const) and v.value is None else "?"))


def _coercion_error(p):
    from py_gql.exc import CoercionError
    return p.outcome == "raise" and exc_is(p.payload, CoercionError)


def _explicit(p):
    return p.outcome == "raise" and not any("raises" in t for t in p.trail)


def _coerce_value_clauses():
    NN = "isinstance(type_, NonNullType)"

    def null_for_non_null(p):
        if p.assumed(NN) is True and p.assumed("value is None") is True and len([1 for t, _o in p.facts if t == "value is None"]) >= 1:
            first = [o for t, o in p.facts if t == "value is None"][0]
            if first is True:
                return _coercion_error(p) and p.events == ()
        return None

    def null_is_null(p):
        facts = [o for t, o in p.facts if t == "value is None"]
        if facts and facts[-1] is True and p.outcome == "return":
            return p.events == () and isinstance(p.payload, T.Const) and p.payload.value is None
        return None

    def scalar(p):
        if p.assumed("isinstance(type_, ScalarType)") is True:
            if p.outcome == "return":
                return p.events == ("parse",)
            if any(t.endswith(".caught") for t in p.trail):
                return _coercion_error(p)
        return None

    def enum(p):
        if p.assumed("isinstance(type_, EnumType)") is True:
            if p.assumed("isinstance(value, str)") is False:
                return _coercion_error(p) and p.events == ()
            if p.outcome == "return":
                return p.events == ("get_value",)
            if any(t.endswith(".caught") for t in p.trail):
                return _coercion_error(p)
        return None

    def delegates(p):
        if p.assumed("isinstance(type_, ListType)") is True and p.outcome == "return":
            return p.events == ("coerce_list",)
        if p.assumed("isinstance(type_, InputObjectType)") is True and p.outcome == "return":
            return p.events == ("coerce_object",)
        return None

    return [
        ("null-rejected-for-non-null", "null for a non-null type is rejected with a coercion error before anything is parsed", null_for_non_null),
        ("null-accepted-for-nullable", "null for a nullable type is null, without parsing", null_is_null),
        ("scalar-parsed-once", "a scalar value is parsed exactly once; a parsing error becomes a coercion error", scalar),
        ("enum-by-name-only", "an enum value must be a string naming a value: looked up once, anything else is a coercion error", enum),
        ("lists-and-objects-delegated", "list and input-object types are delegated to their own coercion, once", delegates),
        ("only-coercion-errors-raised-here", "coerce_value itself raises nothing but coercion errors", lambda p: _coercion_error(p) if _explicit(p) else None),
    ]


def _coerce_list_clauses():
    def single_wrapped(p):
        if p.assumed("isinstance(value, (list, tuple))") is False and p.outcome == "return":
            return p.events == ("coerce(path+[0])",) and isinstance(p.payload, Unknown) and p.payload.text.startswith("[")
        return None

    def per_item(p):
        if not any(e.startswith("for[") for e in p.events) or "}!" in p.events:
            return None
        i = p.events.index([e for e in p.events if e.startswith("for[")][0])
        body = p.events[i + 1:p.events.index("}", i)]
        return body in (("coerce(path+[index])", "append:coerced"), ("coerce(path+[index])", "append:errors"), ("coerce(path+[index])", "for[err.errors]{", "append:errors"),
                        ("coerce(path+[index])",)) or (body[:1] == ("coerce(path+[index])",) and all(e in ("append:errors", "for[err.errors]{", "}") for e in body[1:]))

    def errors_win(p):
        if p.assumed("isinstance(value, (list, tuple))") is not True:
            return None
        many, one = p.assumed("len(errors) > 1"), p.assumed("len(errors) == 1")
        if many is True:
            return p.outcome == "raise"
        if one is True:
            return p.outcome == "raise"
        if many is False and one is False:
            return p.outcome == "return" and isinstance(p.payload, Unknown)
        return None

    return [
        ("single-value-becomes-a-one-item-list", "a value that is not a list is coerced as the single item of a list (path index 0)", single_wrapped),
        ("each-item-coerced-once-in-order", "every item is coerced once against the item type under its index; its value or its error(s) are recorded", per_item),
        ("any-item-error-fails-the-list", "with one or more item errors the list is rejected (all errors reported); otherwise the coerced items are returned", errors_win),
    ]


def _coerce_object_clauses():
    def not_an_object(p):
        if p.assumed("not isinstance(value, dict)") is True:
            return _coercion_error(p) and p.events == ()
        return None

    def field_rules(p):
        # inside the abstract iteration over the declared fields
        if not any(e.startswith("for[type_.fields]") for e in p.events) or "}!" in p.events:
            return None
        i = p.events.index([e for e in p.events if e.startswith("for[type_.fields]")][0])
        body = tuple(p.events[i + 1:p.events.index("}", i)])
        absent = p.assumed("field_name not in value")
        if absent is True:
            if p.assumed("field.has_default_value") is True:
                return body == ("store:field.python_name=default",)
            if p.assumed("isinstance(field.type, NonNullType)") is True:
                return body == ("error", "append:errors")
            return body == ()
        if absent is False:
            return body[:1] == ("coerce(value[field_name],field.type)",) and (body[1:] == ("store:field.python_name=coerced",) or all(
                e in ("append:errors", "for[err.errors]{", "}") for e in body[1:]))
        return None

    def unknown_fields(p):
        if p.assumed("fieldname not in type_.field_map") is True:
            return _coercion_error(p)
        return None

    def errors_win(p):
        many, one = p.assumed("len(errors) > 1"), p.assumed("len(errors) == 1")
        if many is True or one is True:
            return p.outcome == "raise"
        return None

    return [
        ("non-object-rejected", "a value that is not an object is rejected", not_an_object),
        ("field-rules", "per declared field: absent with default -> the default under the python name; absent and required -> an error; absent optional -> omitted; "
                        "present -> coerced against the field type and stored under the python name", field_rules),
        ("unknown-fields-rejected", "a field the type does not define is rejected", unknown_fields),
        ("any-field-error-fails-the-object", "with one or more field errors the object is rejected", errors_win),
        ("only-coercion-errors-raised-here", "nothing but coercion errors is raised here", lambda p: (_coercion_error(p) or isinstance(p.payload, ExcV)) if _explicit(p) else None),
    ]


def _extract_object_clauses():
    def body(p):
        if not any(e.startswith("for[type_.fields]") for e in p.events) or "}!" in p.events:
            return None
        i = p.events.index([e for e in p.events if e.startswith("for[type_.fields]")][0])
        return tuple(p.events[i + 1:p.events.index("}", i)]) if "}" in p.events[i:] else None

    def field_rules(p):
        b = body(p)
        if b is None:
            return None
        absent = [o for t, o in p.facts if re.match(r"^(field\.)?name not in node_fields$", t)]
        if not absent:
            return None
        if absent[-1] is True:
            if p.assumed("field.has_default_value") is True:
                return b == ("store:field.python_name=default",)
            if p.assumed("isinstance(field.type, NonNullType)") is True:
                return False           # (the path raises: it never reaches the end of the loop body)
            return b == ()
        return b == ("value_from_ast", "store:field.python_name=coerced")

    def missing_required(p):
        absent = [o for t, o in p.facts if re.match(r"^(field\.)?name not in node_fields$", t)]
        if absent and absent[-1] is True and p.assumed("field.has_default_value") is False and p.assumed("isinstance(field.type, NonNullType)") is True:
            return p.outcome == "raise" and exc_is(p.payload, __import__("py_gql.exc", fromlist=["InvalidValue"]).InvalidValue)
        return None

    def unknown_fields(p):
        if p.assumed("name not in type_.field_map") is True:
            return p.outcome == "raise" and exc_is(p.payload, __import__("py_gql.exc", fromlist=["InvalidValue"]).InvalidValue) and not any(e.startswith("store:") for e in p.events)
        return None

    return [
        ("field-rules", "per declared field of an object literal: absent with default -> the default under the python name; absent optional -> omitted; present -> "
                        "coerced against the field type and stored under the python name", field_rules),
        ("missing-required-field-rejected", "a required field without default that the literal does not give is rejected", missing_required),
        ("unknown-fields-rejected", "a field the type does not define is rejected before anything is stored", unknown_fields),
    ]


def _extract_store_label(m, av=None):
    text = av.text if isinstance(av, Unknown) else ""
    kind = "coerced" if text.startswith("value_from_ast") else "default" if "default_value" in text else "?"
    return "store:%s=%s" % (m.group(1), kind)


def _coerce_call_label(call, args, kwargs):
    import ast
    path = kwargs.get("path") if "path" in kwargs else (args[3] if len(args) > 3 else None)
    ptxt = ast.unparse([k.value for k in call.keywords if k.arg == "path"][0]) if any(k.arg == "path" for k in call.keywords) else (
        ast.unparse(call.args[3]) if len(call.args) > 3 else "?")
    if ptxt.replace(" ", "") in ("path+[index]", "path+[0]"):
        return "coerce(%s)" % ptxt.replace(" ", "")
    return "coerce(%s,%s)" % (ast.unparse(call.args[0]).replace(" ", ""), ast.unparse(call.args[1]).replace(" ", ""))


def _store_label(m, av=None):
    text = av.text if isinstance(av, Unknown) else ""
    kind = "coerced" if text.startswith("coerce_value") else "default" if "default_value" in text else "?"
    return "store:%s=%s" % (m.group(1), kind)


TRACE_CONTRACTS = [
    dict(id="BlockingExecutor.resolve_field", target="py_gql.execution.blocking_executor:BlockingExecutor.resolve_field", props=["C16", "C10", "C04"],
         default_props=["C16"], clause_props={"one-error-per-failed-field": ["C10", "C04"]},
         config=Config(events=FIELD_EVENTS, nothrow=FIELD_NOTHROW), clauses=FIELD_CLAUSES,
         assumes=["instrumentation hooks, add_error and ResolveInfo() do not raise"]),
    dict(id="Executor.resolve_field", target="py_gql.execution.executor:Executor.resolve_field", props=["C16", "C10", "C04"],
         default_props=["C16"], clause_props={"one-error-per-failed-field": ["C10", "C04"]},
         config=Config(events=FIELD_EVENTS, nothrow=FIELD_NOTHROW + [r"unwrap_value$"],
                       raises=[(r"self\.complete_value$", [RuntimeError, TypeError, __import__("py_gql.exc", fromlist=["ResolverError"]).ResolverError])],
                       callbacks=[(r"runtime\.map_value$", map_value_contract)]),
         clauses=FIELD_CLAUSES,
         assumes=["Runtime.map_value effect contract (contracts/traces.py map_value_contract) for every runtime",
                  "complete_value raises RuntimeError / TypeError / ResolverError only (a generator, type resolver or scalar serialiser may raise the library's resolver error "
                  "while the value is consumed: covered since fix 4cc8987)",
                  "Runtime.unwrap_value does not raise"]),
    dict(id="Executor._handle_non_nullable_value", target="py_gql.execution.executor:Executor._handle_non_nullable_value", props=["C04", "C10"],
         config=Config(events=[(r"self\.add_error$", "add_error"),
                               (r"^ResolverError$", lambda call, args, kwargs: "error(%s)" % ",".join(k for k in ("nodes", "path") if k in kwargs))],
                       nothrow=[r"self\.add_error$", r"^ResolverError$", r"^stringify_path$"]),
         clauses=_non_null_clauses(), assumes=["add_error and the error constructor do not raise"]),
    dict(id="Executor.complete_non_nullable_value", target="py_gql.execution.executor:Executor.complete_non_nullable_value", props=["C04", "C10"],
         config=Config(events=[(r"self\.complete_value$", "complete"), (r"self\._handle_non_nullable_value$", _handle_label)],
                       nothrow=[r"self\._handle_non_nullable_value$"], callbacks=[(r"runtime\.map_value$", map_value_contract)]),
         clauses=_non_null_completion_clauses(), assumes=["Runtime.map_value effect contract"]),
    dict(id="BlockingExecutor.complete_non_nullable_value", target="py_gql.execution.blocking_executor:BlockingExecutor.complete_non_nullable_value", props=["C04", "C10"],
         config=Config(events=[(r"self\.complete_value$", "complete"), (r"self\._handle_non_nullable_value$", _handle_label)],
                       nothrow=[r"self\._handle_non_nullable_value$"]),
         clauses=_non_null_completion_clauses(), assumes=[]),
    dict(id="Executor.complete_value", target="py_gql.execution.executor:Executor.complete_value", props=["C04", "C08", "C16"],
         config=Config(events=[(r"self\.complete_non_nullable_value$", "complete_non_nullable"), (r"self\.complete_list_value$", "complete_list"),
                               (r"^is_iterable$", "is_iterable"), (r"field_type\.serialize$", "serialize"), (r"field_type\.get_name$", "get_name"),
                               (r"self\.resolve_type$", "resolve_type"), (r"self\.execute_fields$", "execute_fields"), (r"self\.collect_fields$", "collect_fields")],
                       nothrow=[r"^stringify_path$", r"^is_iterable$", r"is_possible_type$"]),
         clauses=_complete_value_clauses(), assumes=["is_iterable / is_possible_type / stringify_path do not raise"]),
    dict(id="BlockingExecutor.execute_fields", target="py_gql.execution.blocking_executor:BlockingExecutor.execute_fields", props=["C04"],
         config=Config(events=[(r"self\.resolve_field$", "resolve")], stmt_events=[(r"^result\[key\]$", "store")], nothrow=[r"^OrderedDict$"]),
         clauses=_exec_fields_clauses(True), assumes=[]),
    dict(id="Executor.execute_fields", target="py_gql.execution.executor:Executor.execute_fields", props=["C04"],
         config=Config(events=[(r"self\.resolve_field$", "resolve"), (r"^keys\.append$", "append:keys"), (r"^pending\.append$", "append:pending"),
                               (r"gather_values$", "gather"), (r"^zip$", lambda call, args, kwargs: "zip(%s)" % ",".join(__import__("ast").unparse(a) for a in call.args))],
                       nothrow=[r"^OrderedDict$", r"\.append$", r"^zip$", r"gather_values$"], callbacks=[(r"runtime\.map_value$", map_value_contract)]),
         clauses=_exec_fields_clauses(False), assumes=["Runtime.map_value effect contract; gather_values keeps input order (bounded by C08)"]),
    dict(id="_format_default_value", target="py_gql.schema.introspection:_format_default_value", props=["C15"],
         config=Config(events=[(r"^print_ast$", "print_ast"),
                               (r"^ast_node_from_value$", lambda call, args, kwargs: "ast_node_from_value(%s)" % ",".join(__import__("ast").unparse(a) for a in call.args))],
                       nothrow=[]),
         clauses=_default_value_clauses(), assumes=["print_ast / ast_node_from_value are the printer and the value-to-node conversion (bounded under C03 / C12)"]),
    dict(id="ResolutionContext.add_error", target="py_gql.execution.wrappers:ResolutionContext.add_error", props=["C10", "C04"],
         config=Config(events=[(r"self\._errors\.append$", "record")], stmt_events=[(r"^err\.\w+$", "write:err")],
                       nothrow=[r"\.append$", r"__new__$", r"\.update$"]),
         clauses=[("frame:the-raised-error-is-not-modified", "the error instance handed in is not written to: an instance raised at several positions or in several "
                   "requests (a module-level constant) is reported once per position, each with its own path and location", lambda p: "write:err" not in p.events),
                  ("records-exactly-one-error", "every call that returns has recorded exactly one error", lambda p: None if p.outcome != "return" else count(p.events, "record") == 1)],
         assumes=[]),
    dict(id="collect_fields", target="py_gql.utilities.collect_fields:collect_fields", props=["C04"],
         config=Config(events=[(r"_seen_fragments\.add$", "mark"), (r"^_merge$", "merge"), (r"\.append$", "keep"),
                               (r"^collect_fields$", lambda call, args, kwargs: "rec(%s)" % __import__("ast").unparse(call.args[-1]) if call.args else "rec(?)")],
                       nothrow=[r"^_merge$", r"\.append$", r"\.add$", r"^_fragment_type_applies$", r"^OrderedDict$"],
                       callbacks=[(r"^_skip_selection$", skip_selection_contract)]),
         clauses=_collect_fields_clauses(), assumes=["_skip_selection / _fragment_type_applies / _merge do not raise (directive arguments were validated)"]),
    dict(id="collect_fields_untyped", target="py_gql.utilities.collect_fields:collect_fields_untyped", props=["C19"],
         config=Config(events=[(r"_seen_fragments\.add$", "mark"), (r"^_merge$", "merge"), (r"\.append$", "keep"),
                               (r"^collect_fields_untyped$", lambda call, args, kwargs: "rec(%s)" % __import__("ast").unparse(call.args[-1]) if call.args else "rec(?)")],
                       nothrow=[r"^_merge$", r"\.append$", r"\.add$", r"^OrderedDict$"],
                       callbacks=[(r"^_skip_selection$", skip_selection_contract)]),
         clauses=_collect_fields_clauses(), assumes=["_skip_selection / _merge do not raise"]),
    dict(id="MaxDepthValidationRule.__call__", target="py_gql.utilities.max_depth:MaxDepthValidationRule.__call__", props=["C19"],
         config=Config(events=[(r"^collect_fields_untyped$", "collect"), (r"^selected_fields$", "selected_fields"),
                               (r"^max$", lambda call, args, kwargs: "max(default)" if "default" in kwargs else "max()"),
                               (r"^errors\.append$", "report"),
                               (r"^ValidationError$", lambda call, args, kwargs: "error(%s)" % ",".join("%s=%s" % (k.arg, __import__("ast").unparse(k.value)) for k in call.keywords))],
                       nothrow=[r"^max$", r"^errors\.append$", r"^ValidationError$", r"\.count$", r"\.values$"]),
         clauses=_max_depth_clauses(), assumes=["the depth of a path is its number of segments (selected_fields is bounded under C19's stand-in)"]),
    dict(id="_collect_definitions", target="py_gql.sdl.schema_from_ast:_collect_definitions", props=["C11"],
         config=Config(stmt_events=[(r"^types\[name\]$", "store:types"), (r"^directives\[name\]$", "store:directives")], nothrow=[r"^SDLError$"]),
         clauses=_collect_definitions_clauses(), assumes=[]),
    dict(id="coerce_value", target="py_gql.utilities.coerce_value:coerce_value", props=["C07"],
         config=Config(events=[(r"type_\.parse$", "parse"), (r"type_\.get_value$", "get_value"), (r"^_coerce_list_value$", "coerce_list"),
                               (r"^_coerce_input_object$", "coerce_object")],
                       nothrow=[r"^_path$", r"^CoercionError$", r"^str$"],
                       raises=[(r"type_\.parse$", [__import__("py_gql.exc", fromlist=["ScalarParsingError"]).ScalarParsingError]),
                               (r"type_\.get_value$", [__import__("py_gql.exc", fromlist=["UnknownEnumValue"]).UnknownEnumValue])]),
         clauses=_coerce_value_clauses(),
         assumes=["scalar parse functions raise only ScalarParsingError and get_value only UnknownEnumValue (custom scalars raising anything else fail the request)"]),
    dict(id="_coerce_list_value", target="py_gql.utilities.coerce_value:_coerce_list_value", props=["C07"],
         config=Config(events=[(r"^coerce_value$", _coerce_call_label), (r"^coerced\.append$", "append:coerced"), (r"^errors\.append$", "append:errors")],
                       nothrow=[r"\.append$", r"^MultiCoercionError$", r"^enumerate$"],
                       raises=[(r"^coerce_value$", [__import__("py_gql.exc", fromlist=["CoercionError"]).CoercionError, __import__("py_gql.exc", fromlist=["MultiCoercionError"]).MultiCoercionError])]),
         clauses=_coerce_list_clauses(), assumes=["coerce_value raises only coercion errors (its own contract)"]),
    dict(id="_coerce_input_object", target="py_gql.utilities.coerce_value:_coerce_input_object", props=["C07"],
         config=Config(events=[(r"^coerce_value$", _coerce_call_label), (r"^errors\.append$", "append:errors"), (r"^CoercionError$", "error")],
                       stmt_events=[(r"^coerced\[(field\.python_name)\]$", _store_label)],
                       nothrow=[r"\.append$", r"^MultiCoercionError$", r"^CoercionError$", r"^_path$", r"\.keys$"],
                       raises=[(r"^coerce_value$", [__import__("py_gql.exc", fromlist=["CoercionError"]).CoercionError, __import__("py_gql.exc", fromlist=["MultiCoercionError"]).MultiCoercionError])]),
         clauses=_coerce_object_clauses(), assumes=["coerce_value raises only coercion errors (its own contract)"]),
    dict(id="_extract_input_object", target="py_gql.utilities.value_from_ast:_extract_input_object", props=["C07"],
         config=Config(events=[(r"^value_from_ast$", "value_from_ast")], stmt_events=[(r"^coerced\[(field\.python_name)\]$", _extract_store_label)],
                       nothrow=[r"^InvalidValue$"],
                       raises=[(r"^value_from_ast$", [__import__("py_gql.exc", fromlist=["InvalidValue"]).InvalidValue, __import__("py_gql.exc", fromlist=["UnknownVariable"]).UnknownVariable])]),
         clauses=_extract_object_clauses(), assumes=["value_from_ast raises only InvalidValue / UnknownVariable (bounded: the literal route of the coercion grid)"]),
    dict(id="SchemaValidator.validate_implementation", target="py_gql.schema.validation:SchemaValidator.validate_implementation", props=["C13"],
         config=Config(events=[(r"self\.add_error$", "error"),
                               (r"is_subtype$", lambda call, args, kwargs: "is_subtype(%s)" % ",".join(__import__("ast").unparse(a) for a in call.args))],
                       nothrow=[r"self\.add_error$", r"is_subtype$", r"\.get$"]),
         clauses=_implementation_clauses(), assumes=["Schema.is_subtype is the specification's covariance relation (proved by Engine A in this check)"]),
    dict(id="SchemaValidator.validate_fields", target=_VALIDATION + "validate_fields", props=["C13"], config=Config(**_VALIDATION_CONFIG),
         clauses=_rule_clauses(_VALIDATION + "validate_fields", [
             ("duplicate-field", "a field name used twice on one type", "for[composite_type.fields]{", r"^field\.name in \w+$"),
             ("field-output-type", "a field whose type is not an output type", "for[composite_type.fields]{", r"^not is_output_type\(field\.type\)$"),
             ("duplicate-argument", "an argument name used twice on one field", "for[field.arguments]{", r"^arg\.name in \w+$"),
             ("argument-input-type", "an argument whose type is not an input type", "for[field.arguments]{", r"^not is_input_type\(arg\.type\)$"),
             ("no-fields", "a type without fields", None, r"^not composite_type\.fields$")]) + [
             _always("check-name", "for[composite_type.fields]{", "field-names-checked", "the name of every field is checked"),
             _always("check-name", "for[field.arguments]{", "argument-names-checked", "the name of every argument is checked")],
         assumes=["is_input_type / is_output_type are the specification's IsInputType / IsOutputType (bounded: labelled violations)"]),
    dict(id="SchemaValidator.validate_input_fields", target=_VALIDATION + "validate_input_fields", props=["C13"], config=Config(**_VALIDATION_CONFIG),
         clauses=_rule_clauses(_VALIDATION + "validate_input_fields", [
             ("duplicate-input-field", "an input field name used twice", "for[input_object.fields]{", r"^field\.name in \w+$"),
             ("input-field-input-type", "an input field whose type is not an input type", "for[input_object.fields]{", r"^not is_input_type\(field\.type\)$"),
             ("no-input-fields", "an input object without fields", None, r"^not input_object\.fields$")]) + [
             _always("check-name", "for[input_object.fields]{", "input-field-names-checked", "the name of every input field is checked")],
         assumes=[]),
    dict(id="SchemaValidator.validate_directives", target=_VALIDATION + "validate_directives", props=["C13"], config=Config(**_VALIDATION_CONFIG),
         clauses=_rule_clauses(_VALIDATION + "validate_directives", [
             ("duplicate-directive-argument", "a directive argument name used twice", "for[directive.arguments]{", r"^arg\.name in \w+$"),
             ("directive-argument-input-type", "a directive argument whose type is not an input type", "for[directive.arguments]{", r"^not is_input_type\(arg\.type\)$")]) + [
             _always("check-name", "for[directive.arguments]{", "directive-argument-names-checked", "the name of every directive argument is checked")],
         assumes=[]),
    dict(id="SchemaValidator.validate_enum_values", target=_VALIDATION + "validate_enum_values", props=["C13"], config=Config(**_VALIDATION_CONFIG),
         clauses=_rule_clauses(_VALIDATION + "validate_enum_values", [
             ("no-enum-values", "an enum without values", None, r"^not enum_type\.values$")]) + [
             _always("check-name", "for[enum_type.values]{", "enum-value-names-checked", "the name of every enum value is checked")],
         assumes=[]),
    dict(id="BlockingRuntime.map_value", target="py_gql.execution.runtime.blocking:BlockingRuntime.map_value", props=["C16", "C08"],
         config=Config(events=[(r"^then$", "then"), (r"^else_\[1\]$", "else")]),
         clauses=[("then-exactly-once-first", "`then` is invoked exactly once, first", lambda p: count(p.events, "then") == 1 and p.events[0] == "then"),
                  ("else-at-most-once-after-then-raised", "the else handler is invoked at most once and only after `then` raised",
                   lambda p: count(p.events, "else") <= 1 and ("else" not in p.events or any("then-raises" in t for t in p.trail))),
                  ("else-only-for-matching-class", "the else handler runs only when an else_ pair was given and the exception is an instance of its class",
                   lambda p: "else" not in p.events or p.assumed("else_ and isinstance(err, else_[0])") is True)],
         assumes=[]),
    dict(id="AsyncIORuntime.map_value", target="py_gql.execution.runtime.asyncio:AsyncIORuntime.map_value", props=["C16", "C08"],
         config=Config(events=[(r"^then$", "then"), (r"^else_\[1\]$", "else")], nothrow=[r"^_isawaitable_fast$", r"^cast$"]),
         clauses=[("then-at-most-once", "`then` is invoked at most once", lambda p: count(p.events, "then") <= 1),
                  ("then-exactly-once-when-the-value-arrives", "when the (awaited) value is available `then` is invoked exactly once, first",
                   lambda p: None if any("await-raises" in t for t in p.trail) else (count(p.events, "then") == 1 and p.events[0] == "then")),
                  ("else-at-most-once-after-a-failure", "the else handler is invoked at most once and only after the value failed or `then` raised",
                   lambda p: count(p.events, "else") <= 1 and ("else" not in p.events or any("then-raises" in t or "await-raises" in t for t in p.trail))),
                  ("else-only-for-matching-class", "the else handler runs only when an else_ pair was given and the exception is an instance of its class",
                   lambda p: None if "else" not in p.events else p.assumed("else_ and isinstance(err, else_[0])") is True),
                  ("unmatched-failures-propagate", "a failure the else_ pair does not cover is re-raised, not swallowed",
                   lambda p: None if not (any("then-raises" in t or "await-raises" in t for t in p.trail) and "else" not in p.events) else p.outcome == "raise")],
         assumes=["a coroutine's body is analysed sequentially (what happens once the awaited value arrives); scheduling is the C08 stand-in's business"]),
    dict(id="threadpool.chain", target="py_gql.execution.runtime.threadpool:chain", props=["C08", "C16"],
         config=Config(events=[(r"^then$", "then"), (r"^cb$", "else"), (r"target\.set_result$", "set_result"), (r"target\.set_exception$", "set_exception"),
                               (r"target\.cancel$", "cancel")],
                       nothrow=[r"^_is_future_fast$", r"^cast$", r"^Future$", r"target\.(set_result|set_exception|cancel)$", r"^cb$"],
                       raises=[(r"f\.result$", [Exception, __import__("concurrent.futures", fromlist=["CancelledError"]).CancelledError])],
                       callbacks=[(r"add_done_callback$", done_callback_contract)]),
         clauses=_chain_clauses(),
         assumes=["concurrent.futures.Future.add_done_callback calls the callback exactly once when the future is done; set_result / set_exception / cancel do not raise",
                  "the else handler itself does not raise (if it did inside the done-callback the target would never settle - noted, outside the property)"]),
    dict(id="threadpool.gather_futures", target="py_gql.execution.runtime.threadpool:gather_futures", props=["C08"],
         config=Config(events=[(r"^result_append$|^result\.append$", "append:result"), (r"^pending_append$|^pending\.append$", "append:pending"), (r"outer\.set_result$", "set_result"),
                               (r"outer\.set_exception$", "set_exception")],
                       nothrow=[r"^_is_future_fast$", r"^cast$", r"^Future$", r"outer\.(set_result|set_exception)$", r"_append$", r"^list$", r"^len$", r"\.cancelled$", r"\.cancel$"],
                       raises=[(r"\.result$", [Exception])],
                       callbacks=[(r"add_done_callback$", done_callback_contract)]),
         clauses=_gather_clauses(),
         assumes=["Future.add_done_callback contract; callbacks run one at a time (the unsynchronised `done += 1` across worker threads is outside this family's reach)"]),
    dict(id="threadpool.unwrap_future", target="py_gql.execution.runtime.threadpool:unwrap_future", props=["C08"],
         config=Config(events=[(r"\.result$", lambda call, args, kwargs: "result:%s" % call.func.value.id if isinstance(call.func.value, __import__("ast").Name) else "result:?"),
                               (r"outer\.set_result$", "set_result"), (r"outer\.set_exception$", "set_exception"), (r"outer\.cancel$", "cancel")],
                       nothrow=[r"^_is_future_fast$", r"^Future$", r"outer\.(set_result|set_exception|cancel)$"],
                       raises=[(r"\.result$", [Exception, __import__("concurrent.futures", fromlist=["CancelledError"]).CancelledError])],
                       callbacks=[(r"add_done_callback$", done_callback_contract)]),
         clauses=[("never-waits", "the only future whose result is read is the one the done-callback was called with (it is done): nothing blocks the thread that completes tasks",
                   lambda p: None if not any(e.startswith("result:") for e in p.events) else all(e == "result:f" for e in p.events if e.startswith("result:"))),
                  ("nested-futures-followed-by-callback", "a future resolving to another future is followed by registering the same callback on it, not by waiting",
                   lambda p: None if "rec:cb" not in p.events else p.events.index("rec:cb") > 0),
                  ("outer-settles-once-per-chain-end", "when the chain ends the outer future is settled exactly once by that callback",
                   lambda p: None if "cb:done" not in p.events or "rec:cb" in p.events else (
                       p.outcome == "return" and sum(count(p.events, e) for e in ("set_result", "set_exception", "cancel")) == 1))],
         assumes=["Future.add_done_callback contract"]),
    dict(id="ThreadPoolRuntime.map_value", target="py_gql.execution.runtime.threadpool:ThreadPoolRuntime.map_value", props=["C08"],
         config=Config(events=[(r"^chain$", lambda call, args, kwargs: "chain(%s)" % ",".join(__import__("ast").unparse(a) for a in call.args))]),
         clauses=[("delegates-to-chain", "map_value is chain(value, then, else_)", lambda p: None if p.outcome != "return" else p.events == ("chain(value,then,else_)",))],
         assumes=[]),
    dict(id="process_graphql_query", target="py_gql._graphql:process_graphql_query", props=["C16", "C10"],
         config=_stage_cfg(extra_events=[(r"^GraphQLResult$", lambda call, args, kwargs: "result(%s)" % ",".join(
             (["positional"] if args else []) + [("data=None" if isinstance(kwargs[k], T.Const) and kwargs[k].value is None else "data=?") if k == "data" else k
                                                 for k in kwargs])),
                                         (r"^parse$", "parse"),
                                         (r"^validate_ast$", lambda call, args, kwargs: "validate(%s)" % ",".join("%s=%s" % (k.arg, __import__("ast").unparse(k.value)) for k in call.keywords)),
                                         (r"^execute$", "execute"), (r"schema\.validate$", "schema.validate")],
                         extra_nothrow=[r"^GraphQLResult$"], callbacks=[(r"runtime\.map_value$", map_value_contract)]),
         clauses=_pgq_clauses(),
         assumes=["Runtime.map_value effect contract", "instrumentation hooks, ensure_wrapped and GraphQLResult() do not raise",
                  "`not validation_result` is true exactly when validation reported errors (ValidationResult.__bool__)"]),
    dict(id="GraphQLResult.response", target="py_gql.execution.wrappers:GraphQLResult.response", props=["C10"],
         config=Config(events=[(r"\.to_dict$", "to_dict")], stmt_events=[(r"^d\[[\'\"](\w+)[\'\"]\]$", lambda m: "set:" + m.group(1))],
                       nothrow=[r"\.payload$", r"\.values$", r"\.to_dict$"]),
         clauses=_response_clauses(), assumes=["extension payload() and error to_dict() do not raise (to_dict is contracted separately)"]),
    dict(id="execute", target="py_gql.execution.execute:execute", props=["C09", "C16"],
         config=_stage_cfg(extra_events=[(r"execute_fields_serially$", "serial"), (r"execute_fields$", "parallel"), (r"^GraphQLResult$", "result")],
                           extra_nothrow=[r"^GraphQLResult$", r"unwrap_value$"], callbacks=[(r"runtime\.map_value$", map_value_contract)]),
         clauses=_strategy_clauses(),
         assumes=["Runtime.map_value effect contract", "hooks, ensure_wrapped, unwrap_value and GraphQLResult() do not raise"]),
    dict(id="Executor.execute_fields_serially", target="py_gql.execution.executor:Executor.execute_fields_serially", props=["C09", "C08", "C04"],
         default_props=["C09"], clause_props={"unexpected-failures-surface": ["C09", "C08", "C04"]},
         config=Config(events=[(r"self\.resolve_field$", "resolve"), (r"args\.pop$", _pop_label)], stmt_events=[(r"^resolved_fields\[", "store")],
                       raises=[(r"args\.pop$", [IndexError])], callbacks=[(r"runtime\.map_value$", map_value_contract)]),
         clauses=_serial_clauses(),
         assumes=["Runtime.map_value effect contract: `then` runs only once the mapped value - the previous field including its whole sub-selection - is available",
                  "list.pop(0) removes and returns the first element, IndexError iff empty"]),
    dict(id="subscribe", target="py_gql.execution.subscribe:subscribe", props=["C17", "C16"],
         config=_stage_cfg(extra_events=[(r"^create_source_event_stream$", "create_stream"), (r"runtime\.map_stream$", "map_stream")],
                           extra_nothrow=[r"ft\.partial$"], callbacks=[(r"runtime\.map_value$", map_value_contract)]),
         clauses=_subscribe_clauses(), assumes=["Runtime.map_value effect contract", "hooks and ensure_wrapped do not raise"]),
    dict(id="create_source_event_stream", target="py_gql.execution.subscribe:create_source_event_stream", props=["C17"],
         config=Config(events=[(r"subscription_resolver$", "subscription_resolver")], nothrow=[r"^ResolveInfo$", r"^next$"]),
         clauses=_source_stream_clauses(), assumes=["the source stream is created by (and only by) the field's subscription resolver"]),
    dict(id="execute_subscription_event", target="py_gql.execution.subscribe:execute_subscription_event", props=["C17"],
         config=Config(events=[(r"executor\.clear_errors$", "clear_errors"), (r"executor\.execute_fields$", "execute_fields"),
                               (r"^GraphQLResult$", lambda call, args, kwargs: "result(%s)" % ",".join(
                                   "%s=%s" % (k.arg, __import__("ast").unparse(k.value)) if k.arg == "data" else k.arg for k in call.keywords))],
                       nothrow=[r"clear_errors$", r"^GraphQLResult$", r"unwrap_value$", r"ensure_wrapped$"],
                       callbacks=[(r"runtime\.map_value$", map_value_contract)]),
         clauses=_event_clauses(), assumes=["Runtime.map_value effect contract"]),
    dict(id="_visit_method.wrapper", target="py_gql.lang.visitor:_visit_method", inner="wrapper", props=["C18"],
         config=Config(events=[(r"^inst\.enter$", "enter"),
                               (r"^method$", lambda call, args, kwargs: "traverse:%s" % (args[1].text if len(args) > 1 and isinstance(args[1], Unknown) else "?")),
                               (r"^inst\.leave$", lambda call, args, kwargs: "leave:%s" % (args[0].text if args and isinstance(args[0], Unknown) else "?"))],
                       raises=[(r"^inst\.enter$", [__import__("py_gql.lang.visitor", fromlist=["SkipNode"]).SkipNode])]),
         clauses=_visit_clauses(),
         assumes=["enter raises nothing but SkipNode for the purposes of this contract (other exceptions abort the whole visit)"]),
    _extend_contract("_extend_object_type", [("ext_field.name.value in field_names", "field_names"), ("ext_interface.name.value in interface_names", "interface_names")]),
    _extend_contract("_extend_interface_type", [("ext_field.name.value in field_names", "field_names")]),
    _extend_contract("_extend_enum_type", [("value.name.value in value_names", "value_names")]),
    _extend_contract("_extend_union_type", [("type_def.name.value in member_names", "member_names")]),
    _extend_contract("_extend_input_object_type", [("ext_field.name.value in field_names", "field_names")], inner="fields"),
] + _multi_contracts() + _chained_contracts() + _middleware_contracts() + _merge_contracts()
