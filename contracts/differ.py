"""Sidecar contracts: py_gql.schema.differ safe-type-change predicates (C20)."""
from vf.pyvc.exec import Contract

ADT = "GType"

CONTRACTS = [
    Contract(
        "py_gql.schema.differ:_is_safe_input_type_change",
        params={"old_type": ADT, "new_type": ADT},
        returns="bool",
        ensures=[
            ("sound", "implies(result, in_ok(old_type, new_type))"),
            ("reflexive", "implies(old_type == new_type, result)"),
        ],
        decreases=("structural", ["old_type", "new_type"]),
        note="C20: 'no breaking change reported => every input position at least as permissive'; "
             "'structurally equal => nothing reported'",
    ),
    Contract(
        "py_gql.schema.differ:_is_safe_output_type_change",
        params={"old_type": ADT, "new_type": ADT},
        returns="bool",
        ensures=[
            ("sound", "implies(result, out_ok(old_type, new_type))"),
            ("reflexive", "implies(old_type == new_type, result)"),
        ],
        decreases=("structural", ["old_type", "new_type"]),
        note="C20: 'no breaking change reported => every output position at least as strict'",
    ),
]
