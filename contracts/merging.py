"""Sidecar contracts: type comparison used by the field-merging validation rule (C06, C05)."""
from vf.pyvc.exec import Contract

ADT = "SType"

CONTRACTS = [
    Contract(
        "py_gql.validation.rules.overlapping_fields_can_be_merged:_types_conflict",
        params={"type_1": ADT, "type_2": ADT},
        returns="bool",
        ensures=[("same-response-shape", "result == shape_conflict(type_1, type_2)")],
        decreases=("structural", ["type_1", "type_2"]),
        note="C06 / C05: two fields under one response key must have the same response shape (specification 5.3.2 SameResponseShape, the part on types)",
    ),
]
