"""Sidecar for Engine B: which nonterminal (regular expression over nonterminals of the specification grammar, spec/grammar.py)
each Parser.parse_* method implements, per argument valuation and flag valuation.  `[C]` is replaced by [V] (const=False) or [K]
(const=True).  `?` on the right means the method returns an empty list / None without consuming when the construct is absent;
`( X | NOBRACE )` is the specification's "body unless `{` follows" form.
"""

MAP = {
    "parse_document": {"allow_type_system": "SOF Document EOF", "executable_only": "SOF ExecDocument EOF"},
    "parse_definition": {"allow_type_system": "Definition", "executable_only": "ExecutableDefinition"},
    "parse_name": "Name",
    "parse_executable_definition": "ExecutableDefinition",
    "parse_operation_definition": "OperationDefinition",
    "parse_operation_type": "OperationType",
    "parse_variable_definitions": "VariableDefinitions?",
    "parse_variable_definition": "VariableDefinition",
    "parse_variable": "Variable",
    "parse_selection_set": "SelectionSet",
    "parse_selection": "Selection",
    "parse_field": "Field",
    "parse_arguments": "Arguments[C]?",
    "parse_argument": "Argument[C]",
    "parse_fragment": "FragmentSpread | InlineFragment",
    "parse_fragment_definition": "FragmentDefinition",
    "parse_fragment_name": "FragmentName",
    "parse_value_literal": "Value[C]",
    "parse_string_literal": "StringValue",
    "parse_list": "ListValue[C]",
    "parse_object": "ObjectValue[C]",
    "parse_object_field": "ObjectField[C]",
    "parse_directives": "Directives[C]?",
    "parse_directive": "Directive[C]",
    "parse_type_reference": "Type",
    "parse_named_type": "NamedType",
    "parse_type_system_definition": "TypeSystemDefinition",
    "parse_description": "Description?",
    "parse_schema_definition": "SchemaDefinition",
    "parse_operation_type_definition": "OperationTypeDefinition",
    "parse_scalar_type_definition": "ScalarTypeDefinition",
    "parse_object_type_definition": "ObjectTypeDefinition",
    "parse_implements_interfaces": "ImplementsInterfaces?",
    "parse_fields_definition": "( FieldsDefinition | NOBRACE )",
    "parse_field_definition": "FieldDefinition",
    "parse_argument_definitions": "ArgumentsDefinition?",
    "parse_input_value_definition": "InputValueDefinition",
    "parse_interface_type_definition": "InterfaceTypeDefinition",
    "parse_union_type_definition": "UnionTypeDefinition",
    "parse_union_member_types": "UnionMemberTypes?",
    "parse_enum_type_definition": "EnumTypeDefinition",
    "parse_enum_values_definition": "( EnumValuesDefinition | NOBRACE )",
    "parse_enum_value_definition": "EnumValueDefinition",
    "parse_input_object_type_definition": "InputObjectTypeDefinition",
    "parse_input_fields_definition": "( InputFieldsDefinition | NOBRACE )",
    "parse_type_system_extension": "TypeSystemExtension",
    "parse_schema_extension": "SchemaExtension",
    "parse_scalar_type_extension": "ScalarTypeExtension",
    "parse_object_type_extension": "ObjectTypeExtension",
    "parse_interface_type_extension": "InterfaceTypeExtension",
    "parse_union_type_extension": "UnionTypeExtension",
    "parse_enum_type_extension": "EnumTypeExtension",
    "parse_input_object_type_extension": "InputObjectTypeExtension",
    "parse_directive_definition": "DirectiveDefinition",
    "parse_directive_locations": "DirectiveLocations",
    "parse_directive_location": "DirectiveLocation",
}

# caller-established preconditions: the next token belongs to one of these token classes whenever the method is called
PRE = {"parse_string_literal": ("String", "BlockString"), "parse_type_system_extension": ("Name",)}

# entry points: (function that drives the parser, Parser method, arguments, what it must accept)
ENTRIES = [("parse", "parse_document", ()), ("parse_value", "parse_value_literal", (False,)), ("parse_type", "parse_type_reference", ())]
# module-level drivers analysed like methods: what the whole function must accept
DRIVERS = {"parse_value": "SOF Value[V] EOF", "parse_type": "SOF Type EOF"}


def spec_text(name, args, flags):
    m = MAP[name]
    if isinstance(m, dict):
        m = m["allow_type_system" if flags["allow_type_system"] else "executable_only"]
    if "[C]" in m:
        if len(args) != 1 or not isinstance(args[0], bool):
            raise KeyError("%s needs its const argument" % name)
        m = m.replace("[C]", "[K]" if args[0] else "[V]")
    return m


# node kinds the specification assigns to each method's nonterminal (P5: class of every node a method builds)
VALUES = ("IntValue", "FloatValue", "BooleanValue", "NullValue", "EnumValue")
NODES = {
    "parse_document": ("Document",), "parse_name": ("Name",), "parse_operation_definition": ("OperationDefinition",),
    "parse_variable_definition": ("VariableDefinition",), "parse_variable": ("Variable",), "parse_selection_set": ("SelectionSet",),
    "parse_field": ("Field",), "parse_argument": ("Argument",), "parse_fragment": ("FragmentSpread", "InlineFragment"),
    "parse_fragment_definition": ("FragmentDefinition",), "parse_value_literal": VALUES, "parse_string_literal": ("StringValue",),
    "parse_list": ("ListValue",), "parse_object": ("ObjectValue",), "parse_object_field": ("ObjectField",), "parse_directive": ("Directive",),
    "parse_type_reference": ("ListType", "NonNullType"), "parse_named_type": ("NamedType",), "parse_schema_definition": ("SchemaDefinition",),
    "parse_operation_type_definition": ("OperationTypeDefinition",), "parse_scalar_type_definition": ("ScalarTypeDefinition",),
    "parse_object_type_definition": ("ObjectTypeDefinition",), "parse_field_definition": ("FieldDefinition",),
    "parse_input_value_definition": ("InputValueDefinition",), "parse_interface_type_definition": ("InterfaceTypeDefinition",),
    "parse_union_type_definition": ("UnionTypeDefinition",), "parse_enum_type_definition": ("EnumTypeDefinition",),
    "parse_enum_value_definition": ("EnumValueDefinition",), "parse_input_object_type_definition": ("InputObjectTypeDefinition",),
    "parse_schema_extension": ("SchemaExtension",), "parse_scalar_type_extension": ("ScalarTypeExtension",),
    "parse_object_type_extension": ("ObjectTypeExtension",), "parse_interface_type_extension": ("InterfaceTypeExtension",),
    "parse_union_type_extension": ("UnionTypeExtension",), "parse_enum_type_extension": ("EnumTypeExtension",),
    "parse_input_object_type_extension": ("InputObjectTypeExtension",), "parse_directive_definition": ("DirectiveDefinition",),
}

# source order of every node kind's slots (from the specification's right-hand sides): P5 checks that each slot is fed and that the
# values feeding them are produced (tokens consumed / callees called) in this order
_TD = ("description", "name")
ORDER = {
    "Document": ("definitions",), "OperationDefinition": ("operation", "name", "variable_definitions", "directives", "selection_set"),
    "VariableDefinition": ("variable", "type", "default_value", "directives"), "Variable": ("name",), "SelectionSet": ("selections",),
    "Field": ("alias", "name", "arguments", "directives", "selection_set"), "Argument": ("name", "value"),
    "FragmentSpread": ("name", "directives"), "InlineFragment": ("type_condition", "directives", "selection_set"),
    "FragmentDefinition": ("name", "variable_definitions", "type_condition", "directives", "selection_set"),
    "IntValue": ("value",), "FloatValue": ("value",), "StringValue": ("value", "block"), "BooleanValue": ("value",), "NullValue": (), "EnumValue": ("value",),
    "ListValue": ("values",), "ObjectValue": ("fields",), "ObjectField": ("name", "value"), "Directive": ("name", "arguments"),
    "ListType": ("type",), "NonNullType": ("type",), "NamedType": ("name",), "Name": ("value",),
    "SchemaDefinition": ("directives", "operation_types"), "OperationTypeDefinition": ("operation", "type"),
    "ScalarTypeDefinition": _TD + ("directives",), "ObjectTypeDefinition": _TD + ("interfaces", "directives", "fields"),
    "FieldDefinition": _TD + ("arguments", "type", "directives"), "InputValueDefinition": _TD + ("type", "default_value", "directives"),
    "InterfaceTypeDefinition": _TD + ("directives", "fields"), "UnionTypeDefinition": _TD + ("directives", "types"),
    "EnumTypeDefinition": _TD + ("directives", "values"), "EnumValueDefinition": _TD + ("directives",),
    "InputObjectTypeDefinition": _TD + ("directives", "fields"), "DirectiveDefinition": _TD + ("arguments", "locations"),
    "SchemaExtension": ("directives", "operation_types"), "ScalarTypeExtension": ("name", "directives"),
    "ObjectTypeExtension": ("name", "interfaces", "directives", "fields"), "InterfaceTypeExtension": ("name", "directives", "fields"),
    "UnionTypeExtension": ("name", "directives", "types"), "EnumTypeExtension": ("name", "directives", "values"),
    "InputObjectTypeExtension": ("name", "directives", "fields"),
}
