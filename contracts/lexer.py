"""Sidecar contracts: py_gql.lang.lexer.Lexer (C01 lexical half, C02 token payloads).

Every method is specified against the functional lexical specification spec/lexical.py:
the cursor after the call equals the spec's scanning function of the cursor before it, the
token returned is the spec's token, a raise implies that the spec finds no token there, and
every reported position lies inside the text.  Loop invariants have the continuation form
`spec(cursor) == spec(cursor at entry)` so they talk about the abstraction only.
"""
from vf.pyvc.exec import Contract

S = "self._source"
N = "len(self._source)"
POS = "self._position"
OLD = "old(self._position)"

FIELDS = {"_source": "text", "_len": "int", "_done": "bool", "_started": "bool", "_position": "int"}
INV = ("cursor", "0 <= self._position <= len(self._source)")


def tok(cls_name, fields=("start", "end", "value"), value="seqstr"):
    """fresh token object returned by a contracted callee.  Verbatim tokens (names, numbers) carry
    their value as a slice of the source text (representation choice for a fresh value: the callee's
    postcondition says value == source[start:end], so the slice [start, end) represents it)."""
    kinds = {"start": "int", "end": "int", "value": value}
    return ("tokobj", cls_name, {f: kinds[f] for f in fields})


SLICE = ("slice", "self._source")


def exc_pos(*extra):
    return [("position-in-text", "0 <= exc.position <= len(self._source)")] + list(extra)


CONTRACTS = [
    Contract(
        "py_gql.lang.lexer:Lexer._read_over_whitespace",
        self_fields=FIELDS, requires=[INV], modifies=[POS],
        ensures=[INV, ("skips-ignored", "%s == ignored_end(%s, %s)" % (POS, S, OLD)),
                 ("stops-at-token", "%s == %s or not (is_ignored_char(%s[%s]) or %s[%s] == '#')" % (POS, N, S, POS, S, POS))],
        loops={
            1: {"inv": [("range", "0 <= pos <= %s" % N),
                        ("cont", "ignored_end(%s, pos) == ignored_end(%s, %s)" % (S, S, OLD))],
                "variant": "%s - pos" % N},
            2: {"inv": [("range", "entry(pos) <= pos <= %s" % N),
                        ("cont", "comment_end(%s, pos) == comment_end(%s, entry(pos))" % (S, S))],
                "variant": "%s - pos" % N},
        },
    ),
    Contract(
        "py_gql.lang.lexer:Lexer._read_name",
        self_fields=FIELDS, modifies=[POS],
        requires=[INV, ("at-name-start", "%s < %s and is_name_start(%s[%s])" % (POS, N, S, POS))],
        returns=tok("Name", value=SLICE),
        ensures=[INV,
                 ("class", "type(result) is Name"),
                 ("span", "result.start == %s and result.end == name_end(%s, %s)" % (OLD, S, OLD)),
                 ("cursor-at-end", "%s == result.end" % POS),
                 ("verbatim", "result.value == %s[result.start:result.end]" % S)],
        loops={1: {"inv": [("range", "%s <= %s <= %s" % (OLD, POS, N)),
                           ("cont", "name_end(%s, %s) == name_end(%s, %s)" % (S, POS, S, OLD))],
                   "variant": "%s - %s" % (N, POS)}},
    ),
    Contract(
        "py_gql.lang.lexer:Lexer._read_over_digits",
        self_fields=FIELDS, requires=[INV], modifies=[POS],
        ensures=[INV,
                 ("digit-first", "%s < %s and is_digit(%s[%s])" % (OLD, N, S, OLD)),
                 ("maximal-run", "%s == digits_end(%s, %s)" % (POS, S, OLD)),
                 ("progress", "%s < %s" % (OLD, POS)),
                 ("stops-at-non-digit", "%s == %s or not is_digit(%s[%s])" % (POS, N, S, POS))],
        raises={
            "UnexpectedEOF": exc_pos(("when", "%s == %s" % (OLD, N))),
            "UnexpectedCharacter": exc_pos(("when", "%s < %s and not is_digit(%s[%s])" % (OLD, N, S, OLD))),
        },
        loops={1: {"inv": [("range", "%s <= %s <= %s" % (OLD, POS, N)),
                           ("cont", "digits_end(%s, %s) == digits_end(%s, %s)" % (S, POS, S, OLD)),
                           ("char", "%s < %s and char == %s[%s]" % (POS, N, S, POS))],
                   "variant": "%s - %s" % (N, POS)}},
    ),
    Contract(
        "py_gql.lang.lexer:Lexer._read_over_integer",
        self_fields=FIELDS, requires=[INV], modifies=[POS],
        ensures=[INV,
                 ("integer-part", "int_part_end(%s, %s) >= 0 and %s == int_part_end(%s, %s)" % (S, OLD, POS, S, OLD)),
                 ("progress", "%s < %s" % (OLD, POS)),
                 ("stops-at-non-digit", "%s == %s or not is_digit(%s[%s])" % (POS, N, S, POS))],
        raises={
            "UnexpectedEOF": exc_pos(("when", "%s == %s" % (OLD, N))),
            "UnexpectedCharacter": exc_pos(
                ("when", "%s < %s and (int_part_end(%s, %s) < 0 or (%s[%s] == '0' and %s + 1 < %s and is_digit(%s[%s + 1])))"
                 % (OLD, N, S, OLD, S, OLD, OLD, N, S, OLD))),
        },
    ),
    Contract(
        "py_gql.lang.lexer:Lexer._read_number",
        self_fields=FIELDS, modifies=[POS],
        requires=[INV, ("at-number-start", "%s < %s and (%s[%s] == '-' or is_digit(%s[%s]))" % (POS, N, S, POS, S, POS))],
        returns=[tok("Integer", value=SLICE), tok("Float", value=SLICE)],
        ensures=[INV,
                 ("is-number", "number_token(%s, %s)[0] >= 0" % (S, OLD)),
                 ("span", "result.start == %s and result.end == number_token(%s, %s)[0]" % (OLD, S, OLD)),
                 ("kind", "(type(result) is Float) == number_token(%s, %s)[1] and (type(result) is Integer) == (not number_token(%s, %s)[1])" % (S, OLD, S, OLD)),
                 ("cursor-at-end", "%s == result.end" % POS),
                 ("verbatim", "result.value == %s[result.start:result.end]" % S)],
        raises={
            "UnexpectedEOF": exc_pos(("only-if-no-token", "number_token(%s, %s)[0] < 0" % (S, OLD))),
            "UnexpectedCharacter": exc_pos(("only-if-no-token", "number_token(%s, %s)[0] < 0" % (S, OLD))),
        },
    ),
    Contract(
        "py_gql.lang.lexer:Lexer._read_ellipsis",
        self_fields=FIELDS, modifies=[POS],
        requires=[INV, ("at-dot", "%s < %s and %s[%s] == '.'" % (POS, N, S, POS))],
        returns=tok("Ellip", ("start", "end")),
        ensures=[INV,
                 ("three-dots", "%s + 3 <= %s and %s[%s + 1] == '.' and %s[%s + 2] == '.'" % (OLD, N, S, OLD, S, OLD)),
                 ("class", "type(result) is Ellip"),
                 ("span", "result.start == %s and result.end == %s + 3 and %s == %s + 3" % (OLD, OLD, POS, OLD))],
        raises={
            "UnexpectedEOF": exc_pos(("only-if-no-token", "not (%s + 3 <= %s and %s[%s + 1] == '.' and %s[%s + 2] == '.')" % (OLD, N, S, OLD, S, OLD))),
            "UnexpectedCharacter": exc_pos(("only-if-no-token", "not (%s + 3 <= %s and %s[%s + 1] == '.' and %s[%s + 2] == '.')" % (OLD, N, S, OLD, S, OLD))),
        },
    ),
    Contract(
        "py_gql.lang.lexer:Lexer._read_escaped_unicode",
        self_fields=FIELDS, modifies=[POS],
        requires=[INV, ("after-backslash-u", "%s >= 2 and %s[%s - 1] == 'u' and %s[%s - 2] == '\\\\'" % (POS, S, POS, S, POS))],
        returns="char",
        ensures=[INV,
                 ("four-hex", "unicode_ok(%s, %s)" % (S, OLD)),
                 ("cursor", "%s == %s + 4" % (POS, OLD)),
                 ("code-unit", "result == chr(hex4(%s, %s))" % (S, OLD))],
        raises={
            "NonTerminatedString": exc_pos(("only-if-invalid", "not unicode_ok(%s, %s)" % (S, OLD))),
            "InvalidEscapeSequence": exc_pos(("only-if-invalid", "not unicode_ok(%s, %s)" % (S, OLD))),
        },
    ),
    Contract(
        "py_gql.lang.lexer:Lexer._read_escape_sequence",
        self_fields=FIELDS, modifies=[POS],
        requires=[INV, ("after-backslash", "%s >= 1 and %s[%s - 1] == '\\\\'" % (POS, S, POS))],
        returns="char",
        ensures=[INV,
                 ("valid-escape", "escape_len(%s, %s) > 0" % (S, OLD)),
                 ("cursor", "%s == %s + escape_len(%s, %s)" % (POS, OLD, S, OLD)),
                 ("decoded", "result == escape_char(%s, %s)" % (S, OLD))],
        raises={
            "NonTerminatedString": exc_pos(("only-if-invalid", "escape_len(%s, %s) < 0" % (S, OLD))),
            "InvalidEscapeSequence": exc_pos(("only-if-invalid", "escape_len(%s, %s) < 0" % (S, OLD))),
        },
    ),
    Contract(
        "py_gql.lang.lexer:Lexer._read_string",
        self_fields=FIELDS, modifies=[POS],
        requires=[INV, ("at-quote", "%s < %s and %s[%s] == '\"'" % (POS, N, S, POS))],
        returns=tok("String"),
        ensures=[INV,
                 ("is-string", "str_end(%s, %s + 1) >= 0" % (S, OLD)),
                 ("class", "type(result) is String"),
                 ("span", "result.start == %s and result.end == str_end(%s, %s + 1) and %s == result.end" % (OLD, S, OLD, POS)),
                 ("decoded", "result.value == str_val(%s, %s + 1)" % (S, OLD))],
        raises={
            "NonTerminatedString": exc_pos(("only-if-invalid", "str_end(%s, %s + 1) < 0" % (S, OLD))),
            "InvalidCharacter": exc_pos(("only-if-invalid", "str_end(%s, %s + 1) < 0" % (S, OLD))),
            "InvalidEscapeSequence": exc_pos(("only-if-invalid", "str_end(%s, %s + 1) < 0" % (S, OLD))),
        },
        loops={1: {"inv": [("range", "%s + 1 <= %s <= %s" % (OLD, POS, N)),
                           ("end-cont", "str_end(%s, %s) == str_end(%s, %s + 1)" % (S, POS, S, OLD)),
                           ("val-cont", "''.join(acc) + str_val(%s, %s) == str_val(%s, %s + 1)" % (S, POS, S, OLD)),
                           ("start", "start == %s" % OLD)],
                   "variant": "%s - %s" % (N, POS)}},
    ),
    Contract(
        "py_gql.lang.lexer:Lexer._read_block_string",
        self_fields=FIELDS, modifies=[POS],
        requires=[INV, ("at-triple-quote", "triple_quote_at(%s, %s)" % (S, POS))],
        returns=tok("BlockString"),
        ensures=[INV,
                 ("is-block-string", "block_end(%s, %s + 3) >= 0" % (S, OLD)),
                 ("class", "type(result) is BlockString"),
                 ("span", "result.start == %s and result.end == block_end(%s, %s + 3) and %s == result.end" % (OLD, S, OLD, POS)),
                 ("value", "result.value == block_string_value(block_raw(%s, %s + 3))" % (S, OLD))],
        raises={
            "NonTerminatedString": exc_pos(("only-if-invalid", "block_end(%s, %s + 3) < 0" % (S, OLD))),
            "InvalidCharacter": exc_pos(("only-if-invalid", "block_end(%s, %s + 3) < 0" % (S, OLD))),
        },
        loops={1: {"inv": [("range", "%s + 3 <= %s <= %s" % (OLD, POS, N)),
                           ("end-cont", "block_end(%s, %s) == block_end(%s, %s + 3)" % (S, POS, S, OLD)),
                           ("raw-cont", "''.join(acc) + block_raw(%s, %s) == block_raw(%s, %s + 3)" % (S, POS, S, OLD)),
                           ("start", "start == %s" % OLD)],
                   "variant": "%s - %s" % (N, POS)}},
    ),
    Contract(
        "py_gql.lang.lexer:Lexer.__next__",
        self_fields=FIELDS, modifies=[POS, "self._done", "self._started"],
        requires=[INV],
        ensures=[INV,
                 ("sof", "implies(not old(self._started), type(result) is SOF and result.start == 0 and result.end == 0 "
                         "and %s == %s and self._started and self._done == old(self._done))" % (POS, OLD)),
                 ("token-span", "implies(old(self._started), lex(self._source, old(self._position))[0] != K_ERROR and result.start == lex(self._source, old(self._position))[1] "
                                "and result.end == lex(self._source, old(self._position))[2] and %s == lex(self._source, old(self._position))[2] and self._started)" % POS),
                 ("eof", "implies(old(self._started), (type(result) is EOF) == (lex(self._source, old(self._position))[0] == K_EOF) and self._done == (lex(self._source, old(self._position))[0] == K_EOF))"),
                 ("punctuator", "implies(old(self._started) and (lex(self._source, old(self._position))[0] == K_PUNCT or lex(self._source, old(self._position))[0] == K_ELLIP), "
                                "isinstance(result, ConstToken) and result.value == %s[lex(self._source, old(self._position))[1]:lex(self._source, old(self._position))[2]])" % S),
                 ("name", "implies(old(self._started), (type(result) is Name) == (lex(self._source, old(self._position))[0] == K_NAME))"),
                 ("int", "implies(old(self._started), (type(result) is Integer) == (lex(self._source, old(self._position))[0] == K_INT))"),
                 ("float", "implies(old(self._started), (type(result) is Float) == (lex(self._source, old(self._position))[0] == K_FLOAT))"),
                 ("string", "implies(old(self._started), (type(result) is String) == (lex(self._source, old(self._position))[0] == K_STRING))"),
                 ("block-string", "implies(old(self._started), (type(result) is BlockString) == (lex(self._source, old(self._position))[0] == K_BLOCK))"),
                 ("verbatim", "implies(old(self._started) and (lex(self._source, old(self._position))[0] == K_NAME or lex(self._source, old(self._position))[0] == K_INT or lex(self._source, old(self._position))[0] == K_FLOAT), "
                              "result.value == %s[lex(self._source, old(self._position))[1]:lex(self._source, old(self._position))[2]])" % S),
                 ("string-decoded", "implies(old(self._started) and lex(self._source, old(self._position))[0] == K_STRING, result.value == str_val(%s, lex(self._source, old(self._position))[1] + 1))" % S),
                 ("block-string-value", "implies(old(self._started) and lex(self._source, old(self._position))[0] == K_BLOCK, "
                                        "result.value == block_string_value(block_raw(%s, lex(self._source, old(self._position))[1] + 3)))" % S),
                 ],
        raises=dict(
            [("StopIteration", [("only-when-done", "old(self._done)")])] +
            [(cls, exc_pos(("only-if-no-token", "old(self._started) and not old(self._done) and lex(self._source, old(self._position))[0] == K_ERROR")))
             for cls in ("UnexpectedEOF", "UnexpectedCharacter", "InvalidCharacter", "NonTerminatedString",
                         "InvalidEscapeSequence")]),
        note="C01: the token sequence of a text is the lexical grammar's; every failure is a syntax error "
             "positioned inside the text",
    ),
]

# ---- assumed / external --------------------------------------------------------------------
CONTRACTS.append(Contract(
    "py_gql._string_utils:parse_block_string",
    params={"raw_string": "seqstr"}, returns="seqstr",
    ensures=[("block-string-value", "result == block_string_value(raw_string)")],
    assumed=True,
    note="the BlockStringValue() algorithm is contracted separately (C02, bounded stand-in); here the "
         "lexer only has to hand it the right raw text",
))
