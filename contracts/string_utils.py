"""Sidecar contracts: py_gql._string_utils (C01/C10 error positions -> line/column)."""
from vf.pyvc.exec import Contract

CONTRACTS = [
    Contract(
        "py_gql._string_utils:index_to_loc",
        params={"body": "text", "position": "int"},
        requires=[("position-in-text", "0 <= position <= len(body)")],
        returns=("tuple", ["int", "int"]),
        ensures=[("line", "result[0] == 1 + newlines_before(body, position)"),
                 ("column", "result[1] == position - line_start(body, position) + 1"),
                 ("one-based", "result[0] >= 1 and result[1] >= 1")],
        raises={},
        loops={1: {"inv": [("index", "0 <= __i1 <= position"),
                           ("lines", "lines == newlines_before(body, __i1) and lines >= 0"),
                           ("cols", "cols == __i1 - line_start(body, __i1) and cols >= 0")],
                   "variant": "len(body) - __i1"}},
        note="C01/C10: every position inside the text maps to a 1-based (line, column) and never raises",
    ),
]
