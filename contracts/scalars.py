"""Sidecar contracts: py_gql.schema.scalars (C07 integer range)."""
from vf.pyvc.exec import Contract

CONTRACTS = [
    Contract(
        "py_gql.schema.scalars:coerce_int",
        cases={
            "int": {"maybe_int": "int"},
            "bool": {"maybe_int": "bool"},
            "float": {"maybe_int": "float"},
            "none": {"maybe_int": "none"},
        },
        returns="int",
        ensures=[("accepted-only-if-int32", "int_coercible(maybe_int)"),
                 ("same-number", "result == maybe_int"),
                 ("signed-32-bit", "-2147483648 <= result <= 2147483647")],
        raises={"ValueError": [("rejected-only-if-not-int32", "not int_coercible(maybe_int)")]},
        note="C07: 'integers lie within the full signed 32-bit range': every integral value in [-2^31, 2^31-1] is accepted and "
             "returned unchanged; everything else is rejected with ValueError and with no other exception class",
        bounded="str inputs (int(s, 10) / float(s) parsing) leave the VC generator's subset: bounded stand-in only",
    ),
    Contract(
        "py_gql.schema.scalars:coerce_float",
        cases={
            "int": {"maybe_float": "int"},
            "bool": {"maybe_float": "bool"},
            "float": {"maybe_float": "float"},
            "none": {"maybe_float": "none"},
        },
        returns="float",
        ensures=[("finite", "float_is_finite(result)"),
                 ("accepted-only-if-representable", "float_coercible(maybe_float)"),
                 ("a-float-is-returned-unchanged", "same_float_if_float(maybe_float, result)")],
        raises={"ValueError": [("rejected-only-if-not-a-finite-number", "not float_coercible(maybe_float)")]},
        note="C07 / C10: a Float handed to a resolver or written into a response is a finite double - NaN and the infinities (which strict JSON cannot "
             "carry) and null are rejected with ValueError and with no other exception class; every finite float is accepted and returned unchanged, "
             "every integer below 2**1024 in magnitude is accepted",
        bounded="str inputs (float(s) parsing) leave the VC generator's subset: bounded stand-in only",
    ),
]
