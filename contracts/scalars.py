"""Sidecar contracts: py_gql.schema.scalars (C07 integer range)."""
from vf.pyvc.exec import Contract

CONTRACTS = [
    Contract(
        "py_gql.schema.scalars:coerce_int",
        cases={
            "int": {"maybe_int": "int"},
            "bool": {"maybe_int": "bool"},
            "float": {"maybe_int": "float"},
            "none": {"maybe_int": "none"},
        },
        returns="int",
        ensures=[("accepted-only-if-int32", "int_coercible(maybe_int)"),
                 ("same-number", "result == maybe_int"),
                 ("signed-32-bit", "-2147483648 <= result <= 2147483647")],
        raises={"ValueError": [("rejected-only-if-not-int32", "not int_coercible(maybe_int)")]},
        note="C07: 'integers lie within the full signed 32-bit range': every integral value in [-2^31, 2^31-1] is accepted and "
             "returned unchanged; everything else is rejected with ValueError and with no other exception class",
        bounded="str inputs (int(s, 10) / float(s) parsing) leave the VC generator's subset: bounded stand-in only",
    ),
]
