"""Sidecar contracts: py_gql.schema.schema.Schema type comparators (C13 covariance, C06 rules)."""
from vf.pyvc.exec import Contract, Lemma

ADT = "SType"

LEMMAS = [
    Lemma("valid_impl_reflexive", {"schema": "self", "t": ADT}, "valid_impl_type(schema, t, t)", induction_on="t",
          note="every type is a valid implementation type of itself"),
]

CONTRACTS = [
    Contract(
        "py_gql.schema.schema:Schema.is_subtype",
        params={"type_": ADT, "super_type": ADT},
        returns="bool",
        ensures=[("covariance", "result == valid_impl_type(self, type_, super_type)")],
        decreases=("structural", ["type_", "super_type"]),
        lemmas=LEMMAS,
        note="C13: interface implementation with covariant field types; C06: variables in allowed positions",
    ),
    Contract(
        "py_gql.schema.schema:Schema.is_possible_type",
        params={"abstract_type": ADT, "type_": ADT},
        returns="bool",
        ensures=[("possible-types", "result == (isinstance(type_, ObjectType) and possible(self, abstract_type, type_))")],
        assumed=True,
        note="possible-type membership is a lookup in Schema._possible_types; treated as an uninterpreted relation in the proof "
             "and checked at run time by the bounded schema checks",
    ),
]
