#!/bin/sh
# usage: ./runall.sh [quick|thorough] [jobs]   - runs every claimed check, prints one status line each; exit 0 iff all exit 0 without a VIOLATION line
TIER=${1:-quick}; J=${2:-4}
cd "$(dirname "$0")" || exit 2
mkdir -p .runall
ls vf/props | sed -n 's/^c\([0-9][0-9]\)\.py$/C\1/p' | xargs -P "$J" -I{} sh -c './check {} --tier '"$TIER"' > .runall/{}.out 2>&1; echo "{} exit=$?" >> .runall/{}.out'
rc=0
for f in .runall/C*.out; do
  p=$(basename "$f" .out)
  e=$(sed -n 's/.* exit=\([0-9]*\)$/\1/p' "$f" | tail -1)
  v=$(grep -c '^VIOLATION' "$f")
  k=$(grep -c '^KNOWN-FINDING' "$f")
  s=$(grep -E "^$p (quick|thorough):" "$f" | tail -1)
  echo "$p exit=$e violations=$v known=$k | $s"
  [ "$e" = 0 ] && [ "$v" = 0 ] || rc=1
done
exit $rc
