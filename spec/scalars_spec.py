"""Spec functions for scalar coercion (C07: 'integers lie within the full signed 32-bit range')."""
import math

import z3

MIN_INT32 = -2147483648
MAX_INT32 = 2147483647


def float_is_int32(x):
    """x is a finite float with an integral value in [-2^31, 2^31 - 1]"""
    return x == x and x not in (math.inf, -math.inf) and x == math.floor(x) and MIN_INT32 <= x <= MAX_INT32


def _float_is_int32_symbolic(tr, args, env):
    from vf.pyvc.values import VBool
    f = args[0]
    return VBool(z3.And(f.finite, z3.IsInt(f.r), f.r >= MIN_INT32, f.r <= MAX_INT32))


float_is_int32.__symbolic__ = _float_is_int32_symbolic


def int_coercible(x):
    """x denotes an integer of the signed 32-bit range (None, non-integral and non-finite values do not)"""
    if x is None:
        return False
    if isinstance(x, float):
        return float_is_int32(x)
    return MIN_INT32 <= x <= MAX_INT32
