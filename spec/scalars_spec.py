"""Spec functions for scalar coercion (C07: 'integers lie within the full signed 32-bit range')."""
import math

import z3

MIN_INT32 = -2147483648
MAX_INT32 = 2147483647


def float_is_int32(x):
    """x is a finite float with an integral value in [-2^31, 2^31 - 1]"""
    return x == x and x not in (math.inf, -math.inf) and x == math.floor(x) and MIN_INT32 <= x <= MAX_INT32


def _float_is_int32_symbolic(tr, args, env):
    from vf.pyvc.values import VBool
    f = args[0]
    return VBool(z3.And(f.finite, z3.IsInt(f.r), f.r >= MIN_INT32, f.r <= MAX_INT32))


float_is_int32.__symbolic__ = _float_is_int32_symbolic


def int_coercible(x):
    """x denotes an integer of the signed 32-bit range (None, non-integral and non-finite values do not)"""
    if x is None:
        return False
    if isinstance(x, float):
        return float_is_int32(x)
    return MIN_INT32 <= x <= MAX_INT32


def float_is_finite(x):
    """x is a float that is neither NaN nor an infinity"""
    return isinstance(x, float) and x == x and x not in (math.inf, -math.inf)


def _float_is_finite_symbolic(tr, args, env):
    from vf.pyvc.values import VBool, VFloat
    f = args[0]
    return VBool(f.finite if isinstance(f, VFloat) else z3.BoolVal(False))


float_is_finite.__symbolic__ = _float_is_finite_symbolic

FLOAT_LIMIT = 2 ** 1024


def float_coercible(x):
    """x denotes a number a finite double can stand for: a finite float, a bool, or an integer of magnitude below 2**1024
    (beyond that CPython's float() raises OverflowError; integers just below it that round up to 2**1024 also overflow - the run-time
    reading uses CPython itself)"""
    if x is None:
        return False
    if isinstance(x, float):
        return float_is_finite(x)
    try:
        return float_is_finite(float(x))
    except OverflowError:
        return False


def _float_coercible_symbolic(tr, args, env):
    from vf.pyvc.values import VBool, VFloat, VInt, VNone
    x = args[0]
    if isinstance(x, VNone):
        return VBool(z3.BoolVal(False))
    if isinstance(x, VFloat):
        return VBool(x.finite)
    if isinstance(x, VBool):
        return VBool(z3.BoolVal(True))
    if isinstance(x, VInt):
        return VBool(z3.And(x.e < FLOAT_LIMIT, x.e > -FLOAT_LIMIT))
    raise TypeError("float_coercible: unsupported symbolic argument %r" % (x,))


float_coercible.__symbolic__ = _float_coercible_symbolic


def same_float_if_float(x, r):
    """when the input already is a float the result is that float"""
    return (not isinstance(x, float)) or (r == x)


def _same_float_symbolic(tr, args, env):
    from vf.pyvc.values import VBool, VFloat
    x, r = args
    if isinstance(x, VFloat) and isinstance(r, VFloat):
        return VBool(z3.And(r.cls == x.cls, z3.Implies(x.finite, r.r == x.r)))
    return VBool(z3.BoolVal(True))


same_float_if_float.__symbolic__ = _same_float_symbolic
