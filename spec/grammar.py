"""S1: the syntactic grammar of GraphQL (June 2018, appendix B.2-B.4) plus the two extensions the
library documents (constant directives on variable definitions; optional variable definitions on
fragments behind `experimental_fragment_variables`), transcribed from the specification text and
an Earley recogniser over it.  Independent of py_gql: tokenisation uses spec/lexical.py.

The grammar is written as EBNF text (GRAMMAR below); `[C]` marks the Const / non-Const variants of
the specification's parameterised productions (expanded textually).

Disambiguation: the 2018 grammar is ambiguous where a body-less type definition or extension is
followed by `{` (`type A { b }` also reads as `type A` + query shorthand `{ b }`).  Later editions of
the specification resolve it with an explicit `[lookahead != {]` on the body-less alternatives; that
restriction is applied here (NOBRACE), as every implementation including py_gql's documented grammar
comments does.  The same restriction after `implements`-less / directive-less heads follows from it.
"""
import re

from . import lexical as L

GRAMMAR = r'''
Document            := Definition+
ExecDocument        := ExecutableDefinition+
Definition          := ExecutableDefinition | TypeSystemDefinition | TypeSystemExtension
ExecutableDefinition:= OperationDefinition | FragmentDefinition
OperationDefinition := SelectionSet | OperationType Name? VariableDefinitions? Directives[V]? SelectionSet
OperationType       := "query" | "mutation" | "subscription"
SelectionSet        := '{' Selection+ '}'
Selection           := Field | FragmentSpread | InlineFragment
Field               := Alias? Name Arguments[V]? Directives[V]? SelectionSet?
Alias               := Name ':'
Arguments[C]        := '(' Argument[C]+ ')'
Argument[C]         := Name ':' Value[C]
FragmentSpread      := '...' FragmentName Directives[V]?
InlineFragment      := '...' TypeCondition? Directives[V]? SelectionSet
FragmentDefinition  := "fragment" FragmentName FragVars TypeCondition Directives[V]? SelectionSet
FragmentName        := NameNotOn
TypeCondition       := "on" NamedType
Value[V]            := Variable | Int | Float | StringValue | BooleanValue | NullValue | EnumValue | ListValue[V] | ObjectValue[V]
Value[K]            := Int | Float | StringValue | BooleanValue | NullValue | EnumValue | ListValue[K] | ObjectValue[K]
StringValue         := String | BlockString
BooleanValue        := "true" | "false"
NullValue           := "null"
EnumValue           := EnumName
ListValue[C]        := '[' Value[C]* ']'
ObjectValue[C]      := '{' ObjectField[C]* '}'
ObjectField[C]      := Name ':' Value[C]
VariableDefinitions := '(' VariableDefinition+ ')'
VariableDefinition  := Variable ':' Type DefaultValue? Directives[K]?
Variable            := '$' Name
DefaultValue        := '=' Value[K]
Type                := NamedType | ListType | NonNullType
NamedType           := Name
ListType            := '[' Type ']'
NonNullType         := NamedType '!' | ListType '!'
Directives[C]       := Directive[C]+
Directive[C]        := '@' Name Arguments[C]?
TypeSystemDefinition:= SchemaDefinition | TypeDefinition | DirectiveDefinition
TypeSystemExtension := SchemaExtension | TypeExtension
SchemaDefinition    := "schema" Directives[K]? '{' OperationTypeDefinition+ '}'
SchemaExtension     := "extend" "schema" Directives[K]? '{' OperationTypeDefinition+ '}' | "extend" "schema" Directives[K] NOBRACE
OperationTypeDefinition := OperationType ':' NamedType
Description         := StringValue
TypeDefinition      := ScalarTypeDefinition | ObjectTypeDefinition | InterfaceTypeDefinition | UnionTypeDefinition | EnumTypeDefinition | InputObjectTypeDefinition
TypeExtension       := ScalarTypeExtension | ObjectTypeExtension | InterfaceTypeExtension | UnionTypeExtension | EnumTypeExtension | InputObjectTypeExtension
ScalarTypeDefinition:= Description? "scalar" Name Directives[K]?
ScalarTypeExtension := "extend" "scalar" Name Directives[K]
ObjectTypeDefinition:= Description? "type" Name ImplementsInterfaces? Directives[K]? ( FieldsDefinition | NOBRACE )
ObjectTypeExtension := "extend" "type" Name ImplementsInterfaces? Directives[K]? FieldsDefinition | "extend" "type" Name ImplementsInterfaces? Directives[K] NOBRACE | "extend" "type" Name ImplementsInterfaces NOBRACE
ImplementsInterfaces:= "implements" '&'? NamedType ( '&' NamedType )*
FieldsDefinition    := '{' FieldDefinition+ '}'
FieldDefinition     := Description? Name ArgumentsDefinition? ':' Type Directives[K]?
ArgumentsDefinition := '(' InputValueDefinition+ ')'
InputValueDefinition:= Description? Name ':' Type DefaultValue? Directives[K]?
InterfaceTypeDefinition := Description? "interface" Name Directives[K]? ( FieldsDefinition | NOBRACE )
InterfaceTypeExtension  := "extend" "interface" Name Directives[K]? FieldsDefinition | "extend" "interface" Name Directives[K] NOBRACE
UnionTypeDefinition := Description? "union" Name Directives[K]? UnionMemberTypes?
UnionMemberTypes    := '=' '|'? NamedType ( '|' NamedType )*
UnionTypeExtension  := "extend" "union" Name Directives[K]? UnionMemberTypes | "extend" "union" Name Directives[K]
EnumTypeDefinition  := Description? "enum" Name Directives[K]? ( EnumValuesDefinition | NOBRACE )
EnumValuesDefinition:= '{' EnumValueDefinition+ '}'
EnumValueDefinition := Description? EnumValue Directives[K]?
EnumTypeExtension   := "extend" "enum" Name Directives[K]? EnumValuesDefinition | "extend" "enum" Name Directives[K] NOBRACE
InputObjectTypeDefinition := Description? "input" Name Directives[K]? ( InputFieldsDefinition | NOBRACE )
InputFieldsDefinition     := '{' InputValueDefinition+ '}'
InputObjectTypeExtension  := "extend" "input" Name Directives[K]? InputFieldsDefinition | "extend" "input" Name Directives[K] NOBRACE
DirectiveDefinition := Description? "directive" '@' Name ArgumentsDefinition? "on" DirectiveLocations
DirectiveLocations  := '|'? DirectiveLocation ( '|' DirectiveLocation )*
DirectiveLocation   := "QUERY" | "MUTATION" | "SUBSCRIPTION" | "FIELD" | "FRAGMENT_DEFINITION" | "FRAGMENT_SPREAD" | "INLINE_FRAGMENT" | "VARIABLE_DEFINITION" | "SCHEMA" | "SCALAR" | "OBJECT" | "FIELD_DEFINITION" | "ARGUMENT_DEFINITION" | "INTERFACE" | "UNION" | "ENUM" | "ENUM_VALUE" | "INPUT_OBJECT" | "INPUT_FIELD_DEFINITION"
ValueDocument       := Value[V]
TypeDocument        := Type
'''

TOKEN_CLASSES = ("Name", "NameNotOn", "EnumName", "Int", "Float", "String", "BlockString")


class Grammar:
    """BNF productions: nonterminal -> list of right-hand sides (tuples of symbols).
    A symbol is a nonterminal name, or a terminal ('p', punct) / ('k', keyword) / ('t', token class)."""

    def __init__(self, fragment_variables=False):
        self.prods = {}
        self._n = 0
        text = GRAMMAR.replace("FragVars", "VariableDefinitions?" if fragment_variables else "")
        for line in text.strip().splitlines():
            line = line.strip()
            if not line:
                continue
            lhs, rhs = line.split(":=", 1)
            lhs = lhs.strip()
            if "[C]" in lhs:
                for c in ("V", "K"):
                    self._add(lhs.replace("[C]", "[%s]" % c), rhs.replace("[C]", "[%s]" % c))
            else:
                self._add(lhs, rhs)
        self.nullable = self._nullable()

    # -- EBNF -> BNF --------------------------------------------------------------------
    def _add(self, lhs, rhs):
        toks = re.findall(r"'[^']+'|\"[^\"]+\"|[A-Za-z_]+(?:\[[VK]\])?|[()|?+*]", rhs)
        alts = self._alts(toks)
        assert not toks, (lhs, toks)
        self.prods.setdefault(lhs, []).extend(alts)

    def _alts(self, toks):
        alts = [self._seq(toks)]
        while toks and toks[0] == "|":
            toks.pop(0)
            alts.append(self._seq(toks))
        return alts

    def _seq(self, toks):
        out = []
        while toks and toks[0] not in ("|", ")"):
            t = toks.pop(0)
            if t == "(":
                inner = self._alts(toks)
                assert toks.pop(0) == ")"
                sym = self._fresh()
                self.prods[sym] = inner
            elif t[0] == "'":
                sym = ("p", t[1:-1])
            elif t[0] == '"':
                sym = ("k", t[1:-1])
            elif t in TOKEN_CLASSES:
                sym = ("t", t)
            elif t == "NOBRACE":
                sym = ("la", "{")
            else:
                sym = t
            while toks and toks[0] in "?+*":
                op = toks.pop(0)
                new = self._fresh()
                if op == "?":
                    self.prods[new] = [(), (sym,)]
                elif op == "+":
                    self.prods[new] = [(sym,), (new, sym)]
                else:
                    self.prods[new] = [(), (new, sym)]
                sym = new
            out.append(sym)
        return tuple(out)

    def _fresh(self):
        self._n += 1
        return "_%d" % self._n

    def _nullable(self):
        nul, changed = set(), True
        while changed:
            changed = False
            for nt, alts in self.prods.items():
                if nt not in nul and any(all(isinstance(s, str) and s in nul for s in a) for a in alts):
                    nul.add(nt)
                    changed = True
        return nul


def matches(sym, tok):
    """terminal `sym` matches abstract token `tok` = (kind, value)"""
    kind, value = tok
    if sym[0] == "p":
        return kind == "P" and value == sym[1]
    if sym[0] == "k":
        return kind == "Name" and value == sym[1]
    c = sym[1]
    if c == "Name":
        return kind == "Name"
    if c == "NameNotOn":
        return kind == "Name" and value != "on"
    if c == "EnumName":
        return kind == "Name" and value not in ("true", "false", "null")
    return kind == c


def recognise(grammar, start, toks):
    """Earley recogniser.  toks: list of abstract tokens (kind, value)."""
    prods, nullable = grammar.prods, grammar.nullable
    n = len(toks)
    chart = [set() for _ in range(n + 1)]
    order = [[] for _ in range(n + 1)]

    def add(i, item):
        if item not in chart[i]:
            chart[i].add(item)
            order[i].append(item)
    for a in range(len(prods[start])):
        add(0, (start, a, 0, 0))
    for i in range(n + 1):
        j = 0
        while j < len(order[i]):
            nt, a, dot, origin = order[i][j]
            j += 1
            rhs = prods[nt][a]
            if dot < len(rhs):
                sym = rhs[dot]
                if isinstance(sym, str):
                    for b in range(len(prods[sym])):
                        add(i, (sym, b, 0, i))
                    if sym in nullable:
                        add(i, (nt, a, dot + 1, origin))
                elif sym[0] == "la":
                    if i >= n or not (toks[i][0] == "P" and toks[i][1] == sym[1]):
                        add(i, (nt, a, dot + 1, origin))
                elif i < n and matches(sym, toks[i]):
                    add(i + 1, (nt, a, dot + 1, origin))
            else:
                for (nt2, a2, dot2, origin2) in list(chart[origin]):
                    rhs2 = prods[nt2][a2]
                    if dot2 < len(rhs2) and rhs2[dot2] == nt:
                        add(i, (nt2, a2, dot2 + 1, origin2))
    return any(nt == start and dot == len(prods[start][a]) and origin == 0 for (nt, a, dot, origin) in chart[n])


def abstract_tokens(text):
    """tokenise with the functional lexical specification; None when the text has no tokenisation"""
    out, q = [], 0
    while True:
        kind, a, b = L.lex(text, q)
        if kind == L.K_ERROR:
            return None
        if kind == L.K_EOF:
            return out
        lexeme = text[a:b]
        if kind in (L.K_PUNCT, L.K_ELLIP):
            out.append(("P", lexeme))
        elif kind == L.K_NAME:
            out.append(("Name", lexeme))
        elif kind == L.K_INT:
            out.append(("Int", lexeme))
        elif kind == L.K_FLOAT:
            out.append(("Float", lexeme))
        elif kind == L.K_STRING:
            out.append(("String", lexeme))
        else:
            out.append(("BlockString", lexeme))
        q = b


_GRAMMARS = {}


def grammar(fragment_variables=False):
    g = _GRAMMARS.get(fragment_variables)
    if g is None:
        g = _GRAMMARS[fragment_variables] = Grammar(fragment_variables)
    return g


def accepts(text, entry="document", allow_type_system=True, fragment_variables=False):
    """Does `text` derive from the grammar?  entry: document | value | type."""
    toks = abstract_tokens(text)
    if toks is None:
        return False
    start = {"document": "Document" if allow_type_system else "ExecDocument", "value": "ValueDocument", "type": "TypeDocument"}[entry]
    return recognise(grammar(fragment_variables), start, toks)
