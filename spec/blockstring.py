"""BlockStringValue(rawValue) of the June-2018 specification (section 2.9.4), transcribed
step by step from the algorithm text.  Only LF, CR and CRLF are line terminators; only
space and tab are WhiteSpace.  Used concretely by the bounded stand-in of C02 and replay;
Engine A treats it as an uninterpreted function (the lexer only has to pass it the right raw text).
"""
import z3


def _lines(raw):
    """split at LineTerminator: LF | CR [lookahead != LF] | CR LF"""
    lines, cur, i = [], [], 0
    while i < len(raw):
        c = raw[i]
        if c == "\r":
            lines.append("".join(cur))
            cur = []
            if i + 1 < len(raw) and raw[i + 1] == "\n":
                i += 1
        elif c == "\n":
            lines.append("".join(cur))
            cur = []
        else:
            cur.append(c)
        i += 1
    lines.append("".join(cur))
    return lines


def _leading_ws(line):
    n = 0
    while n < len(line) and line[n] in " \t":
        n += 1
    return n


def block_string_value(raw):
    lines = _lines(raw)
    common_indent = None
    for line in lines[1:]:
        length = len(line)
        indent = _leading_ws(line)
        if indent < length:
            if common_indent is None or indent < common_indent:
                common_indent = indent
    if common_indent is not None:
        lines = lines[:1] + [line[common_indent:] for line in lines[1:]]
    while lines and _leading_ws(lines[0]) == len(lines[0]):
        lines = lines[1:]
    while lines and _leading_ws(lines[-1]) == len(lines[-1]):
        lines = lines[:-1]
    return "\n".join(lines)


_BSV = z3.Function("block_string_value", z3.SeqSort(z3.IntSort()), z3.SeqSort(z3.IntSort()))


def _symbolic(tr, args, env):
    from vf.pyvc.values import VSeq, to_seq
    return VSeq(_BSV(to_seq(args[0])))


block_string_value.__symbolic__ = _symbolic
