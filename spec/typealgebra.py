"""Specification relations over GraphQL type expressions  T ::= Named(name) | [T] | T!

Written from the June-2018 specification (sections 3.4.1 "Wrapping types", 3.12 Non-Null,
"IsValidImplementationFieldType") and from the wording of properties C13/C20; never from the
implementation.  Plain Python over py_gql's own type objects, so the same text is executed by
CPython (bounded stand-ins, replay) and translated to z3 recursive functions (Engine A).
"""
from py_gql.schema.types import ListType, NamedType, NonNullType


def in_ok(o, n) -> bool:
    """Input position: `n` is at least as permissive as `o` (every value accepted at type `o`
    is accepted at type `n`), without relying on single-value-to-list coercion."""
    if isinstance(o, NonNullType):
        if isinstance(n, NonNullType):
            return in_ok(o.type, n.type)
        return in_ok(o.type, n)
    if isinstance(o, ListType):
        return isinstance(n, ListType) and in_ok(o.type, n.type)
    return isinstance(n, NamedType) and o.name == n.name


def out_ok(o, n) -> bool:
    """Output position: `n` is at least as strict as `o` (every value that can be produced at
    type `n` could already be produced at type `o`)."""
    if isinstance(n, NonNullType):
        if isinstance(o, NonNullType):
            return out_ok(o.type, n.type)
        return out_ok(o, n.type)
    if isinstance(o, NonNullType):
        return False
    if isinstance(n, ListType):
        return isinstance(o, ListType) and out_ok(o.type, n.type)
    return isinstance(o, NamedType) and o.name == n.name


# ---- covariance (C13 interface implementation, C06 variable positions) ---------------------------

from py_gql.schema.types import GraphQLAbstractType, ObjectType   # noqa: E402
import z3 as _z3                                                     # noqa: E402


def possible(schema, abstract_type, object_type):
    """`object_type` is one of the possible types of `abstract_type` in `schema` (uninterpreted in proofs)"""
    return object_type in schema.get_possible_types(abstract_type)


def _possible_symbolic(tr, args, env):
    from vf.pyvc.values import VBool
    a, t = args[1], args[2]
    f = _z3.Function("possible", a.e.sort(), t.e.sort(), _z3.BoolSort())
    return VBool(f(a.e, t.e))


possible.__symbolic__ = _possible_symbolic


def valid_impl_type(schema, t, s) -> bool:
    """IsValidImplementationFieldType(t, s) of the specification (section 3.6, Objects, type validation
    rule 4) == AreTypesCompatible(variableType=t, locationType=s) (section 5.8.5) on input types:
    `t` may be used where `s` is expected."""
    if isinstance(t, NonNullType):
        if isinstance(s, NonNullType):
            return valid_impl_type(schema, t.type, s.type)
        return valid_impl_type(schema, t.type, s)
    if isinstance(s, NonNullType):
        return False
    if isinstance(t, ListType):
        return isinstance(s, ListType) and valid_impl_type(schema, t.type, s.type)
    if isinstance(s, ListType):
        return False
    if t == s:
        return True
    return isinstance(t, ObjectType) and isinstance(s, GraphQLAbstractType) and possible(schema, s, t)


# ---- response shapes (C06 / C05 field merging: SameResponseShape, section 5.3.2) ---------------------------------

from py_gql.schema.types import GraphQLLeafType   # noqa: E402


def shape_conflict(a, b) -> bool:
    """The two field types can never describe the same response shape at this level: exactly one of them is non-null, or exactly
    one is a list, or (after unwrapping in lock-step) one of them is a scalar / enum and they are not the same type.  Two composite
    types never conflict here: their sub-selections are compared recursively by the rule itself."""
    if isinstance(a, NonNullType) or isinstance(b, NonNullType):
        if not (isinstance(a, NonNullType) and isinstance(b, NonNullType)):
            return True
        return shape_conflict(a.type, b.type)
    if isinstance(a, ListType) or isinstance(b, ListType):
        if not (isinstance(a, ListType) and isinstance(b, ListType)):
            return True
        return shape_conflict(a.type, b.type)
    if isinstance(a, GraphQLLeafType) or isinstance(b, GraphQLLeafType):
        return not (a == b)
    return False
