"""Specification relations over GraphQL type expressions  T ::= Named(name) | [T] | T!

Written from the June-2018 specification (sections 3.4.1 "Wrapping types", 3.12 Non-Null,
"IsValidImplementationFieldType") and from the wording of properties C13/C20; never from the
implementation.  Plain Python over py_gql's own type objects, so the same text is executed by
CPython (bounded stand-ins, replay) and translated to z3 recursive functions (Engine A).
"""
from py_gql.schema.types import ListType, NamedType, NonNullType


def in_ok(o, n) -> bool:
    """Input position: `n` is at least as permissive as `o` (every value accepted at type `o`
    is accepted at type `n`), without relying on single-value-to-list coercion."""
    if isinstance(o, NonNullType):
        if isinstance(n, NonNullType):
            return in_ok(o.type, n.type)
        return in_ok(o.type, n)
    if isinstance(o, ListType):
        return isinstance(n, ListType) and in_ok(o.type, n.type)
    return isinstance(n, NamedType) and o.name == n.name


def out_ok(o, n) -> bool:
    """Output position: `n` is at least as strict as `o` (every value that can be produced at
    type `n` could already be produced at type `o`)."""
    if isinstance(n, NonNullType):
        if isinstance(o, NonNullType):
            return out_ok(o.type, n.type)
        return out_ok(o, n.type)
    if isinstance(o, NonNullType):
        return False
    if isinstance(n, ListType):
        return isinstance(o, ListType) and out_ok(o.type, n.type)
    return isinstance(o, NamedType) and o.name == n.name
