"""Spec functions over plain text positions (line / column arithmetic)."""


def newlines_before(s, p) -> int:
    """number of LF characters in s[0:p]"""
    if p <= 0:
        return 0
    if s[p - 1] == "\n":
        return newlines_before(s, p - 1) + 1
    return newlines_before(s, p - 1)


def line_start(s, p) -> int:
    """index just after the last LF before position p (0 when there is none)"""
    if p <= 0:
        return 0
    if s[p - 1] == "\n":
        return p
    return line_start(s, p - 1)
