"""Declarative transcription of the lexical grammar (June 2018, appendix B.1) as regular
expressions, used ONLY to validate the functional specification spec/lexical.py by exhaustive
bounded comparison (vf/frontend.py: validate_lexical_spec).  Independent of py_gql.

Token selection: after skipping Ignored, the longest match among the token alternatives wins
("the longest possible sequence of characters"); a number may not be followed by a Digit or a
NameStart (look-ahead restriction the library documents); `""` is the empty string only when not
followed by a third quote.
"""
import re

SRC = "\\t\\n\\r\\x20-\\U0010FFFF"                 # SourceCharacter (code-point view, see spec/lexical.py)
IGNORED = re.compile("(?:[\\ufeff\\t \\n\\r,]|#[\\t\\x20-\\U0010FFFF]*)*")
PUNCT = re.compile(r"[!$()\[\]{}:=@|&]")
ELLIP = re.compile(r"\.\.\.")
NAME = re.compile(r"[_A-Za-z][_0-9A-Za-z]*")
INT = re.compile(r"-?(?:0|[1-9][0-9]*)")
FLOAT = re.compile(r"-?(?:0|[1-9][0-9]*)(?:\.[0-9]+(?:[eE][+-]?[0-9]+)?|[eE][+-]?[0-9]+)")
STRING = re.compile('"(?:[^"\\\\\\n\\r\\x00-\\x08\\x0b\\x0c\\x0e-\\x1f]|\\\\u[0-9A-Fa-f]{4}|\\\\["\\\\/bfnrt])*"')
BLOCK = re.compile('"""(?:\\\\"""|(?!""")[%s])*"""' % SRC)
NAME_START_OR_DIGIT = re.compile(r"[_A-Za-z0-9]")

K_EOF, K_PUNCT, K_ELLIP, K_NAME, K_INT, K_FLOAT, K_STRING, K_BLOCK, K_ERROR = 0, 1, 2, 3, 4, 5, 6, 7, -1


def lex(s, q):
    p = IGNORED.match(s, q).end()
    if p >= len(s):
        return (K_EOF, p, p)
    if s.startswith('"""', p):
        m = BLOCK.match(s, p)
        return (K_BLOCK, p, m.end()) if m else (K_ERROR, p, p)
    best = None
    for kind, rx in ((K_PUNCT, PUNCT), (K_ELLIP, ELLIP), (K_NAME, NAME), (K_INT, INT), (K_FLOAT, FLOAT), (K_STRING, STRING)):
        m = rx.match(s, p)
        if m and (best is None or m.end() > best[2]):
            best = (kind, p, m.end())
    if best is None:
        return (K_ERROR, p, p)
    if best[0] in (K_INT, K_FLOAT):
        e = best[2]
        if e < len(s) and NAME_START_OR_DIGIT.match(s, e):
            return (K_ERROR, p, p)
    return best


def tokens(s):
    """list of (kind, start, end) up to and including EOF, or None when the text has no tokenisation."""
    out, q = [], 0
    while True:
        t = lex(s, q)
        if t[0] == K_ERROR:
            return None
        out.append(t)
        if t[0] == K_EOF:
            return out
        q = t[2]
