"""Functional specification of the GraphQL lexical grammar (June 2018, section 2.1 and
appendix B.1) as deterministic maximal-munch scanning functions.

Written from the specification text, not from py_gql.  Pure Python in the small subset that
Engine A translates to z3 (recursive functions become z3 RecFunctions), so the very same
text is (a) executed by CPython for run-time contract checking and counterexample replay and
(b) used in the proof obligations.  That this *functional* form agrees with the declarative
grammar (regular expressions transcribed from appendix B.1) is checked separately by
exhaustive bounded enumeration (vf/specval.py) and is part of the trusted base.

Interpretation decisions (documented in DESIGN.md §6/C01):
  * SourceCharacter: U+0009, U+000A, U+000D and every code point >= U+0020.  The 2018 text says
    "U+0020-U+FFFF" over UTF-16 code units; a Python str holds code points, so supplementary
    characters (two in-range UTF-16 units) are source characters.
  * numbers carry the look-ahead restriction the library documents (CHANGES.md 0.5.0, spec RFCs
    #599/#601): a number token may not be followed by a Digit or NameStart.  A following "." is
    not demanded at token level (unobservable at parse level, DESIGN.md C01).
Positions are code-point indices.  "-1" is the failure sentinel of every *_end function.
"""

# token kinds returned by lex_kind
K_EOF, K_PUNCT, K_ELLIP, K_NAME, K_INT, K_FLOAT, K_STRING, K_BLOCK, K_ERROR = 0, 1, 2, 3, 4, 5, 6, 7, -1

PUNCTUATORS = "!$()[]{}:=@|&"


def is_digit(c):
    return "0" <= c <= "9"


def is_name_start(c):
    return c == "_" or "A" <= c <= "Z" or "a" <= c <= "z"


def is_name_cont(c):
    return is_name_start(c) or is_digit(c)


def is_source_char(c):
    return c >= " " or c == "\t" or c == "\n" or c == "\r"


def is_comment_char(c):
    return is_source_char(c) and c != "\n" and c != "\r"


def is_ignored_char(c):
    # UnicodeBOM, WhiteSpace (tab, space), LineTerminator (LF, CR; CRLF is two of them), Comma
    return c == "\ufeff" or c == "\t" or c == " " or c == "\n" or c == "\r" or c == ","


def is_hex(c):
    return "0" <= c <= "9" or "A" <= c <= "F" or "a" <= c <= "f"


def hex_val(c):
    if "0" <= c <= "9":
        return ord(c) - 48
    if "A" <= c <= "F":
        return ord(c) - 55
    return ord(c) - 87


def comment_end(s, p) -> int:
    """first position >= p that does not hold a CommentChar"""
    if p < len(s) and is_comment_char(s[p]):
        return comment_end(s, p + 1)
    return p


def ignored_end(s, p) -> int:
    """first position >= p that starts no Ignored token"""
    if p < len(s) and is_ignored_char(s[p]):
        return ignored_end(s, p + 1)
    if p < len(s) and s[p] == "#":
        return ignored_end(s, comment_end(s, p + 1))
    return p


def name_end(s, p) -> int:
    if p < len(s) and is_name_cont(s[p]):
        return name_end(s, p + 1)
    return p


def digits_end(s, p) -> int:
    if p < len(s) and is_digit(s[p]):
        return digits_end(s, p + 1)
    return p


def int_part_end(s, p):
    """end of `0 | NonZeroDigit Digit*` starting at p, or -1"""
    if p < len(s) and s[p] == "0":
        return p + 1
    if p < len(s) and is_digit(s[p]):
        return digits_end(s, p)
    return -1


def number_token(s, p):
    """(end, is_float) of the number token starting at p; end == -1 when none does."""
    p1 = p + 1 if (p < len(s) and s[p] == "-") else p
    i = int_part_end(s, p1)
    if i < 0:
        return (-1, False)
    has_frac = i < len(s) and s[i] == "."
    f = digits_end(s, i + 1) if has_frac else i
    if has_frac and f == i + 1:
        return (-1, False)
    has_exp = f < len(s) and (s[f] == "e" or s[f] == "E")
    e0 = f + 1 if has_exp else f
    e1 = e0 + 1 if (has_exp and e0 < len(s) and (s[e0] == "+" or s[e0] == "-")) else e0
    e = digits_end(s, e1) if has_exp else f
    if has_exp and e == e1:
        return (-1, False)
    if e < len(s) and (is_digit(s[e]) or is_name_start(s[e])):
        return (-1, False)
    return (e, has_frac or has_exp)


def is_simple_escape(c):
    return c == '"' or c == "\\" or c == "/" or c == "b" or c == "f" or c == "n" or c == "r" or c == "t"


def simple_escape(c):
    if c == "b":
        return "\b"
    if c == "f":
        return "\f"
    if c == "n":
        return "\n"
    if c == "r":
        return "\r"
    if c == "t":
        return "\t"
    return c


def unicode_ok(s, p):
    """four hex digits at p..p+3"""
    return p + 4 <= len(s) and is_hex(s[p]) and is_hex(s[p + 1]) and is_hex(s[p + 2]) and is_hex(s[p + 3])


def hex4(s, p):
    return ((hex_val(s[p]) * 16 + hex_val(s[p + 1])) * 16 + hex_val(s[p + 2])) * 16 + hex_val(s[p + 3])


def escape_len(s, p):
    """p is the position after a backslash: length of the escape body (1 or 5), or -1"""
    if p >= len(s):
        return -1
    if is_simple_escape(s[p]):
        return 1
    if s[p] == "u" and unicode_ok(s, p + 1):
        return 5
    return -1


def escape_char(s, p):
    """the character an escape body at p denotes (meaningful when escape_len(s, p) > 0)"""
    if s[p] == "u":
        return chr(hex4(s, p + 1))
    return simple_escape(s[p])


def str_end(s, p) -> int:
    """p is inside a quoted string (after the opening quote): position after the closing quote, or -1"""
    if p >= len(s):
        return -1
    if s[p] == '"':
        return p + 1
    if s[p] == "\\":
        if escape_len(s, p + 1) < 0:
            return -1
        return str_end(s, p + 1 + escape_len(s, p + 1))
    if s[p] == "\n" or s[p] == "\r" or not is_source_char(s[p]):
        return -1
    return str_end(s, p + 1)


def str_val(s, p) -> str:
    """decoded value of the quoted string body starting at p (meaningful when str_end(s, p) >= 0)"""
    if p >= len(s):
        return ""
    if s[p] == '"':
        return ""
    if s[p] == "\\":
        if escape_len(s, p + 1) < 0:
            return ""
        return escape_char(s, p + 1) + str_val(s, p + 1 + escape_len(s, p + 1))
    if s[p] == "\n" or s[p] == "\r" or not is_source_char(s[p]):
        return ""
    return s[p] + str_val(s, p + 1)


def triple_quote_at(s, p):
    return p + 3 <= len(s) and s[p] == '"' and s[p + 1] == '"' and s[p + 2] == '"'


def block_end(s, p) -> int:
    """p is inside a block string (after the opening triple quote): position after the closing one, or -1"""
    if p >= len(s):
        return -1
    if triple_quote_at(s, p):
        return p + 3
    if s[p] == "\\" and triple_quote_at(s, p + 1):
        return block_end(s, p + 4)
    if not is_source_char(s[p]):
        return -1
    return block_end(s, p + 1)


def block_raw(s, p) -> str:
    """raw content of the block string body at p with every escaped triple quote unescaped"""
    if p >= len(s):
        return ""
    if triple_quote_at(s, p):
        return ""
    if s[p] == "\\" and triple_quote_at(s, p + 1):
        return '"""' + block_raw(s, p + 4)
    if not is_source_char(s[p]):
        return ""
    return s[p] + block_raw(s, p + 1)


def lex(s, q):
    """(kind, start, end) of the first token at or after q (ignored tokens skipped)."""
    p = ignored_end(s, q)
    if p >= len(s):
        return (K_EOF, p, p)
    c = s[p]
    if not is_source_char(c):
        return (K_ERROR, p, p)
    if c in PUNCTUATORS:
        return (K_PUNCT, p, p + 1)
    if c == ".":
        if p + 3 <= len(s) and s[p + 1] == "." and s[p + 2] == ".":
            return (K_ELLIP, p, p + 3)
        return (K_ERROR, p, p)
    if triple_quote_at(s, p):
        if block_end(s, p + 3) < 0:
            return (K_ERROR, p, p)
        return (K_BLOCK, p, block_end(s, p + 3))
    if c == '"':
        if str_end(s, p + 1) < 0:
            return (K_ERROR, p, p)
        return (K_STRING, p, str_end(s, p + 1))
    if c == "-" or is_digit(c):
        if number_token(s, p)[0] < 0:
            return (K_ERROR, p, p)
        return (K_FLOAT if number_token(s, p)[1] else K_INT, p, number_token(s, p)[0])
    if is_name_start(c):
        return (K_NAME, p, name_end(s, p))
    return (K_ERROR, p, p)
